import SophiaModel.Basic.Proto
import SophiaModel.Model.Source

/-!
C15 driver.  One request = one pipeline run:

  x <source> <chain> <consumer> <mode> [extra tokens ignored by the model: fmt=.. doc=..]

* source   `I:<ev>,<ev>,…`  iterator of `Result`: `t5` = `Ok(triple 5)`, `q5.2` = `Ok(quad 5 in graph 2)`,
                            `E7` = `Err(payload 7)`;  `I:_` empty; `J:` instead of `I:` = iterator of quads
           `C:<step>;…` / `D:<step>;…`  the harness's synthetic chunked source of triples / quads, steps as for `P:`
           `P:<step>;<step>;…`  observed `parse_step` outcomes of a Rio parser: `o:<items>` = emitted
                            items then `Ok`, `e<hex>:<items>` = emitted items then the parser's error
                            (hex of its message); items `,`-separated or `_`;  `P:_` = no step
* chain    `-` or adapters joined by `/`: `fi.m.r ft.m.r fq.m.r` (filter_items/_triples/_quads, keep iff
           `v mod m ≠ r`), `mi.F mt.F mq.F` (map_*), `xi.m.r.F xt.m.r.F xq.m.r.F` (filter_map_*),
           `tq` (to_quads), `tt` (to_triples); a map / filter_map adapter followed by `!` is followed by
           `.into_iter()` (at most one per chain); `F` = `a<k>` (+k) | `Q<k>g<g>` (+k, to quad of graph g) |
           `T<k>` (+k, to triple)
* consumer `try.<j|->.<e>` recording closure through try_for_each_item, failing on call j with payload e;
           `for` for_each_item; `vec` collect into Vec; `lg`/`fg` collect into Light/Fast graph|dataset;
           `add.<pre>` / `ins.<pre>` / `rem.<pre>` add_to_graph / insert_all / remove_all on a store
           already holding `pre`; `small.<free>.<pre>` insert_all into a 16-bit-index graph with `free`
           free slots; `ser.<limit>.<e>` NT/NQ serializer over a writer failing after `limit` bytes
           `gad.<pre>` / `gadd.<pre>` / `gade.<pre>` insert_all / add_to_dataset / element-wise insert_quad on
           `graph.as_dataset_mut()` / `into_dataset()` (a quad in a named graph is a sink fault OnlyDefaultGraph);
           `dsg.<g>.<pre>` / `dsgr.<g>.<pre>` insert_all / remove_all on `dataset.graph_mut(g)`;
           `hs` / `bs` collect into HashSet / BTreeSet; `addh.<pre>` add_to_graph on a HashSet, `remb.<pre>`
           remove_all on a BTreeSet; `rio.<ttl|trig|xml>.<limit>.<e>.<-|H|F|c<j>>` streaming Turtle / TriG /
           RDF-XML serializer over a writer failing after `limit` bytes: the third-party formatter fails
           nowhere / in its constructor / in `finish` / on `format` call j (observed with the formatter alone)
* mode     `w` whole stream, `s` step-wise try_for_some_item, `S` step-wise try_for_some_triple/_quad (`try` only),
           `f` step-wise for_some_triple/_quad (`for` only)

Reply: `log ret side payload val final pulled` from the mirrored code (`pulled` = source steps consumed;
`info.steps` informational), and `o.*` the same from the specification (`specResult` on `chainItems`), which
is what the property demands — only for consumers whose failure position the request itself fixes (not for
`small`, `ser`, `rio`, where it derives from index slots / bytes: there the property is evaluated on the
Rust side from what the writer / store was observed to do).
-/

namespace SophiaModel.Driver.C15
open SophiaModel Proto Source

/-! ### parsing -/

def splitOn (sep : Char) : List Char → List (List Char)
  | [] => [[]]
  | c :: cs =>
    if c == sep then [] :: splitOn sep cs
    else match splitOn sep cs with
      | [] => [[c]]
      | h :: t => (c :: h) :: t

def natOf (cs : List Char) : Option Nat :=
  if cs.isEmpty then none
  else cs.foldl (fun acc c => acc.bind fun n => if c.isDigit then some (n * 10 + (c.toNat - 48)) else none) (some 0)

def parseItem : List Char → Option Item
  | 't' :: r => (natOf r).map .triple
  | 'q' :: r =>
    match splitOn '.' r with
    | [a, b] => do some (.quad (← natOf a) (← natOf b))
    | _ => none
  | _ => none

def parseItems (cs : List Char) : Option (List Item) :=
  if cs == ['_'] then some [] else (splitOn ',' cs).mapM parseItem

inductive Src where
  | iter (rs : List (Except String Item))
  | script (sc : List (Ev Item String))

def parseIterEv : List Char → Option (Except String Item)
  | 'E' :: r => some (.error (String.ofList r))
  | cs => (parseItem cs).map .ok

def parseStep (cs : List Char) : Option (Ev Item String) :=
  match splitOn ':' cs with
  | [['o'], is] => (parseItems is).map .ok
  | ['e' :: h, is] => (parseItems is).map fun is => .err is (String.ofList h)
  | _ => none

def parseSrc : List Char → Option Src
  | 'I' :: ':' :: r =>
    if r == ['_'] then some (.iter []) else ((splitOn ',' r).mapM parseIterEv).map .iter
  | 'J' :: ':' :: r =>   -- the same, announced as an iterator of quads
    if r == ['_'] then some (.iter []) else ((splitOn ',' r).mapM parseIterEv).map .iter
  | 'P' :: ':' :: r | 'C' :: ':' :: r | 'D' :: ':' :: r =>   -- parser steps / synthetic chunked source (triples / quads)
    if r == ['_'] then some (.script []) else ((splitOn ';' r).mapM parseStep).map .script
  | _ => none

def parseFn : List Char → Option Fn
  | 'a' :: r => (natOf r).map .add
  | 'T' :: r => (natOf r).map .addToTriple
  | 'Q' :: r =>
    match splitOn 'g' r with
    | [k, g] => do some (.addToQuad (← natOf k) (← natOf g))
    | _ => none
  | _ => none

def parseAdapter (cs : List Char) : Option Adapter :=
  match splitOn '.' cs with
  | [['t', 'q']] => some .toQuads
  | [['t', 't']] => some .toTriples
  | [['f', w], m, r] => do
    let p : Pred := ⟨← natOf m, ← natOf r⟩
    match w with
    | 'i' => some (.filterItems p)
    | 't' => some (.filterTriples p)
    | 'q' => some (.filterQuads p)
    | _ => none
  | [['m', w], f] => do
    let f ← parseFn f
    match w with
    | 'i' => some (.mapItems f)
    | 't' => some (.mapTriples f)
    | 'q' => some (.mapQuads f)
    | _ => none
  | [['x', w], m, r, f] => do
    let p : Pred := ⟨← natOf m, ← natOf r⟩
    let f ← parseFn f
    match w with
    | 'i' => some (.filterMapItems p f)
    | 't' => some (.filterMapTriples p f)
    | 'q' => some (.filterMapQuads p f)
    | _ => none
  | _ => none

/-- a chain, with at most one adapter marked `!` (= `.into_iter()` right after it) -/
structure Chain where
  c1 : List Adapter
  iter : Option (Adapter × List Adapter)

def Chain.all (c : Chain) : List Adapter :=
  match c.iter with
  | none => c.c1
  | some (a, c2) => c.c1 ++ a :: c2

def parseChain (cs : List Char) : Option Chain :=
  if cs == ['-'] then some ⟨[], none⟩ else do
    let toks := splitOn '/' cs
    let marked := toks.map fun t => (t.getLast? == some '!', if t.getLast? == some '!' then t.dropLast else t)
    let ads ← marked.mapM fun (m, t) => (parseAdapter t).map fun a => (m, a)
    let pre := ads.takeWhile (fun x => !x.1)
    match ads.drop pre.length with
    | [] => some ⟨pre.map (·.2), none⟩
    | (_, a) :: rest =>
      if rest.any (·.1) || !a.hasIntoIter then none
      else some ⟨pre.map (·.2), some (a, rest.map (·.2))⟩

inductive Consumer where
  | try_ (failAt : Option Nat) (payload : String)
  | for_
  | vec
  | collect
  | insert (pre : List Item)       -- add_to_graph / insert_all
  | remove (pre : List Item)
  | small (free : Nat) (pre : List Item)
  | ser (limit : Nat) (payload : String)
  | insertFast (pre : List Item)   -- insert_all on a Fast (multi-index) store
  | gad (pre : List Item)          -- insert_all / add_to_dataset / element-wise insert on graph.as_dataset_mut()
  | dsg (gn : Nat) (pre : List Item)     -- insert_all on dataset.graph_mut(g)
  | dsgRem (gn : Nat) (pre : List Item)  -- remove_all on dataset.graph_mut(g)
  | set                              -- collect into HashSet / BTreeSet
  | rio (plan : FmtPlan) (payload : String)

/-- payload `Z` = a writer that is simply full (`Ok(0)` for ever): `write_all` turns that into
`ErrorKind::WriteZero`, whose message is what the sink error carries -/
def writerPayload (e : String) : String :=
  if e == "Z" then hexOfString "failed to write whole buffer" else e

def parseConsumer (cs : List Char) : Option Consumer :=
  match splitOn '.' cs with
  | [['t', 'r', 'y'], j, e] =>
    if j == ['-'] then some (.try_ none (String.ofList e))
    else (natOf j).map fun j => .try_ (some j) (String.ofList e)
  | [['f', 'o', 'r']] => some .for_
  | [['v', 'e', 'c']] => some .vec
  | [['l', 'g']] | [['f', 'g']] => some .collect
  | [['h', 's']] | [['b', 's']] => some .set
  | ['r' :: 'i' :: 'o' :: [], _kind, _limit, e, fail] =>
    let e := String.ofList e
    match fail with
    | ['-'] => some (.rio ⟨false, none, false⟩ e)
    | ['H'] => some (.rio ⟨true, none, false⟩ e)
    | ['F'] => some (.rio ⟨false, none, true⟩ e)
    | 'c' :: j => (natOf j).map fun j => .rio ⟨false, some j, false⟩ e
    | _ => none
  | ['s' :: 'm' :: 'a' :: 'l' :: 'l' :: [], f, pre] => do some (.small (← natOf f) (← parseItemsDots pre))
  | ['s' :: 'e' :: 'r' :: [], l, e] => (natOf l).map fun l => .ser l (writerPayload (String.ofList e))
  | ['d' :: 's' :: 'g' :: [], g, pre] => do some (.dsg (← natOf g) (← parseItemsDots pre))
  | ['d' :: 's' :: 'g' :: 'r' :: [], g, pre] => do some (.dsgRem (← natOf g) (← parseItemsDots pre))
  | [w, pre] =>
    if w == "gad".toList || w == "gadd".toList || w == "gade".toList then (parseItemsDots pre).map .gad
    else if w == "ins".toList then (parseItemsDots pre).map .insertFast
    else if w == "add".toList || w == "addh".toList then (parseItemsDots pre).map .insert
    else if w == "rem".toList || w == "remb".toList then (parseItemsDots pre).map .remove
    else none
  | _ => none
where
  /-- inside a consumer token the pre-inserted items are `+`-separated values: `t`-items only need
  the number, quads are written `n@g` -/
  parseItemsDots (cs : List Char) : Option (List Item) :=
    if cs == ['_'] then some []
    else (splitOn '+' cs).mapM fun c =>
      match splitOn '@' c with
      | [n] => (natOf n).map .triple
      | [n, g] => do some (.quad (← natOf n) (← natOf g))
      | _ => none

/-! ### rendering -/

def renderItem : Item → String
  | .triple n => "t" ++ toString n
  | .quad n g => "q" ++ toString n ++ "." ++ toString g

def renderItems (is : List Item) : String :=
  if is.isEmpty then "_" else ",".intercalate (is.map renderItem)

def itemKey : Item → Nat × Nat × Nat
  | .triple n => (0, n, 0)
  | .quad n g => (1, n, g)

def keyLe (a b : Item) : Bool :=
  let (a1, a2, a3) := itemKey a
  let (b1, b2, b3) := itemKey b
  a1 < b1 || (a1 == b1 && (a2 < b2 || (a2 == b2 && a3 ≤ b3)))

def insertSorted (x : Item) : List Item → List Item
  | [] => [x]
  | y :: ys => if keyLe x y then x :: y :: ys else y :: insertSorted x ys

def sortItems (is : List Item) : List Item := is.foldr insertSorted []

/-- uniform observation of a run -/
structure Out where
  log : List Item
  ret : Option (StreamResult Unit String String)
  val : Option Nat := none
  steps : Option Nat := none
  final : String := "-"
  /-- how many steps were taken from the source (script length minus what is left) -/
  pulled : Nat := 0
  /-- multi-index stores: do all indexes hold the same statements? -/
  idx : Option Bool := none

def renderOut (pfx : String) (o : Out) : List String :=
  let (ret, side, payload) := match o.ret with
    | none => ("fuel", "-", "-")
    | some (.ok ()) => ("ok", "-", "-")
    | some (.error (.source e)) => ("err", "src", e)
    | some (.error (.sink e)) => ("err", "sink", e)
  [kv (pfx ++ "log") (renderItems o.log), kv (pfx ++ "ret") ret, kv (pfx ++ "side") side,
   kv (pfx ++ "payload") payload,
   kv (pfx ++ "val") (match o.val with | some n => toString n | none => "-"),
   kv (pfx ++ "final") o.final] ++
  (if pfx == "" then [kv "pulled" (toString o.pulled)] else []) ++
  (match o.idx with | some b => [kvB (pfx ++ "idx") b] | none => []) ++
  -- the number of `Ok(true)` rounds is not part of the property: informational only (no such field in the
  -- implementation's reply)
  (match o.steps with | some n => [kv (pfx ++ "info.steps") (toString n)] | none => [])

def storeErr {α : Type} : Option (StreamResult α String StoreError) → Option (StreamResult Unit String String)
  | none => none
  | some (.ok _) => some (.ok ())
  | some (.error (.source e)) => some (.error (.source e))
  | some (.error (.sink .indexFull)) => some (.error (.sink "index-full"))

def gadErr {α : Type} : Option (StreamResult α String GadError) → Option (StreamResult Unit String String)
  | none => none
  | some (.ok _) => some (.ok ())
  | some (.error (.source e)) => some (.error (.source e))
  | some (.error (.sink .onlyDefaultGraph)) => some (.error (.sink "only-default-graph"))
  | some (.error (.sink (.graph _))) => some (.error (.sink "index-full"))

def okVal {ε εk : Type} : Option (StreamResult Nat ε εk) → Option Nat
  | some (.ok n) => some n
  | _ => none

def isOk {α ε εk : Type} : Option (StreamResult α ε εk) → Bool
  | some (.ok _) => true
  | _ => false

def mkStore (free : Option Nat) (pre : List Item) : Store :=
  { present := pre.eraseDups, known := (pre.map Item.val).eraseDups, free := free }

/-- the mirrored code, on any source; `used s'` = number of source steps consumed when the source is left in state `s'` -/
def runConsumer {σ : Type} (S : Source σ Item String) (s : σ) (used : σ → Nat) (stepMode : Bool) : Consumer → Out
  | .try_ j e =>
    if stepMode then
      match stepwise S (recSink j e) s ⟨[], 0⟩ with
      | (s', st, n, r) => { log := st.log, ret := r, steps := some n, pulled := used s' }
    else
      match tryForEachItem S (recSink j e) s ⟨[], 0⟩ with
      | (s', st, r) => { log := st.log, ret := r, pulled := used s' }
  | .for_ =>
    -- whole (`for_each_item`) or step-wise (`for_some_triple` until false/Err): the same loop
    match forEachItem S recPush s ⟨[], 0⟩ with
    | (s', st, r) => { log := st.log, pulled := used s', ret := r.map fun
        | .ok () => .ok ()
        | .error e => .error (.source e) }
  | .vec =>
    match collectVec S s with
    | (s', log, v, r) =>
      { log := log, ret := storeErr r, final := if isOk r then renderItems v else "-", pulled := used s' }
  | .set =>
    match collectSet S s with
    | (s', log, v, r) =>
      { log := log, ret := storeErr r, final := if isOk r then renderItems (sortItems v) else "-", pulled := used s' }
  | .collect =>
    match collectStore S s (mkStore none []) with
    | (s', log, g, r) =>
      { log := log, ret := storeErr r, final := if isOk r then renderItems (sortItems g.present) else "-",
        pulled := used s' }
  | .insert pre =>
    match insertAll S s (mkStore none pre) with
    | (s', log, g, r) =>
      { log := log, ret := storeErr r, val := okVal r, final := renderItems (sortItems g.present), pulled := used s' }
  | .insertFast pre =>
    let p := pre.eraseDups
    match insertAllFast S s ⟨p, p, p, (pre.map Item.val).eraseDups, none⟩ with
    | (s', log, g, r) =>
      { log := log, ret := storeErr r, val := okVal r, final := renderItems (sortItems g.spo), pulled := used s',
        idx := some g.coherentB }
  | .gad pre =>
    match insertAllGad S s (mkStore none pre) with
    | (s', log, g, r) =>
      { log := log, ret := gadErr r, val := okVal r, final := renderItems (sortItems g.present), pulled := used s' }
  | .dsg gn pre =>
    match insertAllDsg gn S s (mkStore none pre) with
    | (s', log, g, r) =>
      { log := log, ret := storeErr r, val := okVal r, final := renderItems (sortItems g.present), pulled := used s' }
  | .dsgRem gn pre =>
    match removeAllDsg gn S s (mkStore none pre) with
    | (s', log, g, r) =>
      { log := log, ret := storeErr r, val := okVal r, final := renderItems (sortItems g.present), pulled := used s' }
  | .remove pre =>
    match removeAll S s (mkStore none pre) with
    | (s', log, g, r) =>
      { log := log, ret := storeErr r, val := okVal r, final := renderItems (sortItems g.present), pulled := used s' }
  | .small free pre =>
    match insertAll S s (mkStore (some free) pre) with
    | (s', log, g, r) =>
      { log := log, ret := storeErr r, val := okVal r, final := renderItems (sortItems g.present), pulled := used s' }
  | .ser limit e =>
    match serialize e S s limit with
    | (s', log, w, r) => { log := log, ret := r, final := hexOfChars w.out, pulled := used s' }
  | .rio plan e =>
    match serializeRio plan e S s with
    | (s', log, r) => { log := log, ret := r, pulled := used s' }

/-- is the position of the sink's failure chosen by the request itself (then the specification can
be printed as the oracle), or derived from bytes / index slots (then only the model fields are) -/
def Consumer.hasOracle : Consumer → Bool
  | .small .. | .ser .. | .rio .. => false
  | _ => true

def handle (line : String) : String :=
  match fields line with
  | "x" :: src :: chain :: cons :: mode :: _ =>
    match parseSrc src.toList, parseChain chain.toList, parseConsumer cons.toList with
    | some src, some c, some cons =>
      let stepMode := mode == "s" || mode == "S"
      let sc := match src with
        | .iter rs => rs.map Ev.ofResult
        | .script sc => sc
      let out := match c.iter, src with
        | none, .iter rs => runConsumer (applyChain c.c1 iterSource) rs (fun s' => rs.length - s'.length) stepMode cons
        | none, .script sc => runConsumer (applyChain c.c1 rioSource) sc (fun s' => sc.length - s'.length) stepMode cons
        -- `.into_iter()`: the buffering iterator over the batch source (an iterator of `Result`s is the
        -- batch source with one-item steps: lemma `iter_tryForSome`), used as a `Source` under `c2`
        | some (a, c2), _ =>
          runConsumer (applyChain c2 (intoIterSource (applyChain c.c1 rioSource) a)) ⟨sc, []⟩
            (fun st => sc.length - st.source.length) stepMode cons
      let c := c.all
      -- oracle: the consumer fed directly with what the chain means on the delivered items
      let spec := runConsumer specSource (some (chainItems c (Ev.itemsOf sc), Ev.errorOf sc)) (fun _ => 0) false cons
      reply (renderOut "" out ++ (if cons.hasOracle then renderOut "o." { spec with steps := none } else []))
    | _, _, _ => "bad-op"
  | _ => "bad-op"

abbrev State := Unit
def init : State := ()
def step (_ : State) (line : String) : State × String := ((), handle line)

end SophiaModel.Driver.C15

def main : IO UInt32 := SophiaModel.Proto.runLoop SophiaModel.Driver.C15.init SophiaModel.Driver.C15.step
