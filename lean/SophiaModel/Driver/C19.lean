import SophiaModel.Basic.Proto
import SophiaModel.Model.Loader

/-!
C19 driver.  Requests (all strings hex; `{B}` inside a directory, an IRI or a file content stands for
the absolute path of the sandbox base: the real temp directory on the Rust side, `/sbx` here):

  g <cfg> <fs> <iri>          `LocalLoader::new(cfg)` then `get(iri)`
  l <cfg> <fs> <iri> <pred>   `get_resource(iri)` then `Resource::get_resource(pred)`: the link is followed by
                              the real code only; the model contributes the oracle

  cfg = `-` | `<ns>:<dir>(,<ns>:<dir>)*`
  fs  = `-` | entry(,entry)*  with entry = `f:<relpath>` (file with the canonical marker content)
                                         | `d:<relpath>` (directory) | `c:<relpath>:<content>` (file, given content)
        relpaths are normalised and relative to the sandbox base.
-/
namespace SophiaModel.Driver.C19
open SophiaModel Proto Loader

def baseStr : Str := "/sbx".toList
def baseLoc : List Str := ["sbx".toList]
def placeholder : Str := "{B}".toList

/-- replace every occurrence of `{B}` -/
def substB : Nat → Str → Str
  | 0, s => s
  | _, [] => []
  | n + 1, c :: cs =>
    if placeholder.isPrefixOf (c :: cs) then baseStr ++ substB n ((c :: cs).drop placeholder.length)
    else c :: substB n cs

def subst (s : Str) : Str := substB (s.length + 1) s

/-- canonical content of an `f:` entry: valid Turtle and N-Triples, unique per path -/
def marker (rel : String) : Str :=
  let h := hexOfString rel
  ("<urn:vh:file:" ++ h ++ "> <urn:vh:is> \"" ++ h ++ "\" .\n").toList

def parseCfg (tok : String) : Option (List (Str × Str)) :=
  if tok == "-" then some [] else
  (tok.splitOn ",").mapM (fun e =>
    match e.splitOn ":" with
    | [a, b] => do
      let ns ← charsOfHex a
      let d ← charsOfHex b
      pure (ns, subst d)
    | _ => none)

def relLoc (rel : String) : List Str := baseLoc ++ (splitSlash rel.toList).filter (· ≠ [])

def parseFs (tok : String) : Option FS :=
  if tok == "-" then some ⟨[(baseLoc, .dir)]⟩ else do
  let es ← (tok.splitOn ",").mapM (fun e =>
    match e.splitOn ":" with
    | ["f", p] => do
      let rel ← stringOfHex p
      pure (relLoc rel, Node.file (marker rel))
    | ["d", p] => do
      let rel ← stringOfHex p
      pure (relLoc rel, Node.dir)
    | ["c", p, c] => do
      let rel ← stringOfHex p
      let content ← charsOfHex c
      pure (relLoc rel, Node.file (subst content))
    | _ => none)
  pure ⟨(baseLoc, .dir) :: es⟩

def newErrName : NewErr → String
  | .iriMustEndWithSlash => "slash"
  | .pathMustBeAbsolute => "abs"
  | .pathMustBeDirectory => "dir"

def openErrName : OpenErr → String
  | .notFound => "notfound"
  | .notDir => "notdir"
  | .isDir => "isdir"
  | .nameTooLong => "toolong"
  | .nul => "nul"

/-- where the opened path lands, relative to the sandbox base -/
def readName (p : Str) : String :=
  match osResolve p with
  | b :: rest =>
    if [b] = baseLoc ∧ rest ≠ [] then hexOfChars (List.intercalate ['/'] rest) else "outside"
  | [] => "outside"

def feats : Features := allFeats

def handle (line : String) : String :=
  match fields line with
  | ["g", c, f, i] =>
    match parseCfg c, parseFs f, charsOfHex i with
    | some caches, some fs, some iri0 =>
      let iri := subst iri0
      match Loader.new fs caches with
      | .error e => reply [kv "new" (newErrName e)]
      | .ok cfg =>
        let safe := decide (SafeIri cfg iri)
        match getCur feats cfg fs iri with
        | .ok p _ ct =>
          let esc := !decide (ConfinedAt cfg iri p)
          reply [kv "new" "ok", kv "feat" "jsonld+xml", kv "res" "ok", kv "io" "none", kv "read" (readName p),
                 kv "ct" (hexOfChars ct), kvB "escaped" esc, kv "o.escaped" "0", kvB "safe" safe,
                 kvB "guard" Gen.LoaderExts.guardPresent, kv "opened" (hexOfChars p)]
        | .err e =>
          let (r, io) := match e with
            | .unsupported => ("unsupported", "none")
            | .notFound => ("notfound", "none")
            | .io k => ("io", openErrName k)
          reply [kv "new" "ok", kv "feat" "jsonld+xml", kv "res" r, kv "io" io, kv "read" "none", kv "ct" "none",
                 kv "escaped" "0", kv "o.escaped" "0", kvB "safe" safe, kvB "guard" Gen.LoaderExts.guardPresent]
    | _, _, _ => "bad-hex"
  | ["l", c, f, i, p] =>
    match parseCfg c, parseFs f, charsOfHex i, charsOfHex p with
    | some caches, some fs, some _, some _ =>
      match Loader.new fs caches with
      | .error e => reply [kv "new" (newErrName e)]
      | .ok _ => reply [kv "new" "ok", kv "o.escaped" "0", kv "o.linkdiff" "0"]
    | _, _, _, _ => "bad-hex"
  | _ => "bad-op"

abbrev State := Unit
def init : State := ()
def step (_ : State) (line : String) : State × String := ((), handle line)

end SophiaModel.Driver.C19

def main : IO UInt32 := SophiaModel.Proto.runLoop SophiaModel.Driver.C19.init SophiaModel.Driver.C19.step
