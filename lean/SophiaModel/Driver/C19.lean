import SophiaModel.Basic.Proto
import SophiaModel.Model.Loader

/-!
C19 driver.  Requests (all strings hex; `{B}` inside a directory, an IRI or a file content stands for
the absolute path of the sandbox base: the real temp directory on the Rust side, `/sbx` here):

  g <cfg> <fs> <iri>          `LocalLoader::new(cfg)` then `get(iri)`
  l <cfg> <fs> <iri> <pred> [<mode> [<link>]]
                              `get_resource(iri)` then a link of the loaded document is followed through one of
                              the entry points of `Resource` (all of them are `get_neighbour`).  When the request
                              names the absolute IRI planted verbatim in the data (N-Triples documents) the
                              model runs `getNeighbour` on it and predicts what is read; otherwise (Turtle:
                              the parser resolves the reference) it contributes the oracle only
  j <cfg> <fs> <iri>          JSON-LD document with remote contexts: oracle only (which IRIs the JSON-LD
                              processor asks for is not modelled; each of them goes through `ctxFetch` = `get`)
  y <cfg> <fs> <iri> <kind>   sandbox with symbolic links (`s:` entries, ignored here): no prediction

  cfg = `-` | `<ns>:<dir>(,<ns>:<dir>)*`
  fs  = `-` | entry(,entry)*  with entry = `f:<relpath>` (file with the canonical marker content)
                                         | `d:<relpath>` (directory) | `c:<relpath>:<content>` (file, given content)
        relpaths are normalised and relative to the sandbox base.
-/
namespace SophiaModel.Driver.C19
open SophiaModel Proto Loader

def baseStr : Str := "/sbx".toList
def baseLoc : List Str := ["sbx".toList]
def placeholder : Str := "{B}".toList

/-- replace every occurrence of `{B}` -/
def substB : Nat → Str → Str
  | 0, s => s
  | _, [] => []
  | n + 1, c :: cs =>
    if placeholder.isPrefixOf (c :: cs) then baseStr ++ substB n ((c :: cs).drop placeholder.length)
    else c :: substB n cs

def subst (s : Str) : Str := substB (s.length + 1) s

/-- canonical content of an `f:` entry, unique per path: valid Turtle and N-Triples, or (name ending
in `.jsonld`) a JSON-LD document that is also usable as a remote context -/
def marker (rel : String) : Str :=
  let h := hexOfString rel
  if rel.endsWith ".jsonld" then
    ("{\"@context\":{\"vhmark\":\"urn:vh:ctx:" ++ h ++ "\"},\"@id\":\"urn:vh:file:" ++ h ++
      "\",\"urn:vh:is\":\"" ++ h ++ "\"}\n").toList
  else ("<urn:vh:file:" ++ h ++ "> <urn:vh:is> \"" ++ h ++ "\" .\n").toList

def parseCfg (tok : String) : Option (List (Str × Str)) :=
  if tok == "-" then some [] else
  (tok.splitOn ",").mapM (fun e =>
    match e.splitOn ":" with
    | [a, b] => do
      let ns ← charsOfHex a
      let d ← charsOfHex b
      pure (ns, subst d)
    | _ => none)

def relLoc (rel : String) : List Str := baseLoc ++ (splitSlash rel.toList).filter (· ≠ [])

def parseFs (tok : String) : Option FS :=
  if tok == "-" then some ⟨[(baseLoc, .dir)]⟩ else do
  let es ← (tok.splitOn ",").mapM (fun e =>
    match e.splitOn ":" with
    | ["f", p] => do
      let rel ← stringOfHex p
      pure (some (relLoc rel, Node.file (marker rel)))
    | ["d", p] => do
      let rel ← stringOfHex p
      pure (some (relLoc rel, Node.dir))
    | ["c", p, c] => do
      let rel ← stringOfHex p
      let content ← charsOfHex c
      pure (some (relLoc rel, Node.file (subst content)))
    -- a symbolic link: the model's file system has none (assumption of the property)
    | ["s", _, _] => pure none
    | _ => none)
  pure ⟨(baseLoc, .dir) :: es.filterMap id⟩

def newErrName : NewErr → String
  | .iriMustEndWithSlash => "slash"
  | .pathMustBeAbsolute => "abs"
  | .pathMustBeDirectory => "dir"

def openErrName : OpenErr → String
  | .notFound => "notfound"
  | .notDir => "notdir"
  | .isDir => "isdir"
  | .nameTooLong => "toolong"
  | .nul => "nul"

/-- where the opened path lands, relative to the sandbox base -/
def readName (p : Str) : String :=
  match osResolve p with
  | b :: rest =>
    if [b] = baseLoc ∧ rest ≠ [] then hexOfChars (List.intercalate ['/'] rest) else "outside"
  | [] => "outside"

def feats : Features := allFeats

def modes : List String := ["one", "any", "all", "items", "pred"]

/-- `l` requests.  With `link = some t` (an absolute IRI planted verbatim in an N-Triples document):
`get_resource(doc)` then `get_neighbour` on `t`, the base being the fragment-less document IRI. -/
def handleL (c f i p : String) (link : Option Str) : String :=
  match parseCfg c, parseFs f, charsOfHex i, charsOfHex p with
  | some caches, some fs, some doc0, some _ =>
    match Loader.new fs caches with
    | .error e => reply [kv "new" (newErrName e)]
    | .ok cfg =>
      -- `linkdiff` (following a link reads what `get` reads for that IRI) is model behaviour, not the property
      let oracle := [kv "new" "ok", kv "o.escaped" "0", kv "linkdiff" "0"]
      match link with
      | none => reply oracle
      | some t0 =>
        let doc := subst doc0
        let t := subst t0
        match getResourceRead (getCur feats) cfg fs doc with
        | .err _ => reply oracle
        | .ok _ _ _ =>
          -- N-Triples terms are absolute IRIs (the generator plants nothing else there)
          match getNeighbour (fun _ => true) (getCur feats) cfg fs (some (stripFragment doc)) t with
          | .notAbsolute => reply (oracle ++ [kv "fres" "notabsolute", kv "read" "none"])
          | .sameDoc => reply (oracle ++ [kv "fres" "samedoc", kv "read" "none"])
          | .loaded (.ok q _ _) =>
            reply (oracle ++ [kv "fres" "read", kv "read" (readName q),
                              kvB "mescaped" (!decide (ConfinedAt cfg t q))])
          | .loaded (.err e) =>
            let r := match e with
              | .unsupported => "unsupported"
              | .notFound => "notfound"
              | .io _ => "io"
            reply (oracle ++ [kv "fres" r, kv "read" "none"])
  | _, _, _, _ => "bad-hex"

def handle (line : String) : String :=
  match fields line with
  | ["g", c, f, i] =>
    match parseCfg c, parseFs f, charsOfHex i with
    | some caches, some fs, some iri0 =>
      let iri := subst iri0
      match Loader.new fs caches with
      | .error e => reply [kv "new" (newErrName e)]
      | .ok cfg =>
        let safe := decide (SafeIri cfg iri)
        match getCur feats cfg fs iri with
        | .ok p _ ct =>
          let esc := !decide (ConfinedAt cfg iri p)
          reply [kv "new" "ok", kv "feat" "jsonld+xml", kv "res" "ok", kv "io" "none", kv "read" (readName p),
                 kv "ct" (hexOfChars ct), kvB "escaped" esc, kv "o.escaped" "0", kvB "safe" safe,
                 kvB "guard" Gen.LoaderExts.guardPresent, kv "opened" (hexOfChars p)]
        | .err e =>
          let (r, io) := match e with
            | .unsupported => ("unsupported", "none")
            | .notFound => ("notfound", "none")
            | .io k => ("io", openErrName k)
          reply [kv "new" "ok", kv "feat" "jsonld+xml", kv "res" r, kv "io" io, kv "read" "none", kv "ct" "none",
                 kv "escaped" "0", kv "o.escaped" "0", kvB "safe" safe, kvB "guard" Gen.LoaderExts.guardPresent]
    | _, _, _ => "bad-hex"
  | ["l", c, f, i, p] => handleL c f i p none
  | ["l", c, f, i, p, m] => if modes.contains m then handleL c f i p none else "bad-op"
  | ["l", c, f, i, p, m, g] =>
    if !modes.contains m then "bad-op"
    else if g == "-" then handleL c f i p none
    else match charsOfHex g with
      | some link => handleL c f i p (some link)
      | none => "bad-hex"
  | ["j", c, f, i] =>
    match parseCfg c, parseFs f, charsOfHex i with
    | some caches, some fs, some _ =>
      match Loader.new fs caches with
      | .error e => reply [kv "new" (newErrName e)]
      | .ok _ => reply [kv "new" "ok", kv "o.escaped" "0", kv "unlogged" "0", kv "spysame" "1"]
    | _, _, _ => "bad-hex"
  | ["y", c, f, i, k] =>
    if k != "in" && k != "out" then "bad-op" else
    match parseCfg c, parseFs f, charsOfHex i with
    | some caches, some fs, some _ =>
      match Loader.new fs caches with
      | .error e => reply [kv "new" (newErrName e)]
      | .ok _ => reply [kv "new" "ok"]
    | _, _, _ => "bad-hex"
  | _ => "bad-op"

abbrev State := Unit
def init : State := ()
def step (_ : State) (line : String) : State × String := ((), handle line)

end SophiaModel.Driver.C19

def main : IO UInt32 := SophiaModel.Proto.runLoop SophiaModel.Driver.C19.init SophiaModel.Driver.C19.step
