import SophiaModel.Basic.Proto
import SophiaModel.Model.Loader

/-!
C19 driver.  Requests (all strings hex; `{B}` inside a directory, an IRI or a file content stands for
the absolute path of the sandbox base: the real temp directory on the Rust side, `/sbx` here):

  g <cfg> <fs> <iri>          `LocalLoader::new(cfg)` then `get(iri)`
  l <cfg> <fs> <iri> <pred> [<mode> [<link>]]
                              `get_resource(iri)` then a link of the loaded document is followed through one of
                              the entry points of `Resource` (all of them are `get_neighbour`).  When the request
                              names the absolute IRI planted verbatim in the data (N-Triples documents) the
                              model runs `getNeighbour` on it and predicts what is read; otherwise (Turtle:
                              the parser resolves the reference) it contributes the oracle only
  j <cfg> <fs> <iri>          JSON-LD document with remote contexts: oracle only (which IRIs the JSON-LD
                              processor asks for is not modelled; each of them goes through `ctxFetch` = `get`)
  y <cfg> <fs> <iri> <kind>   sandbox with symbolic links (`s:<relpath>:<target>` entries): the model with links
                              (`getCurL`, outside the property) predicts what is read and from where

  cfg = `-` | `<ns>:<dir>(,<ns>:<dir>)*`
  fs  = `-` | entry(,entry)*  with entry = `f:<relpath>` (file with the canonical marker content)
                                         | `d:<relpath>` (directory) | `c:<relpath>:<content>` (file, given content)
        relpaths are normalised and relative to the sandbox base.
-/
namespace SophiaModel.Driver.C19
open SophiaModel Proto Loader

def baseStr : Str := "/sbx".toList
def baseLoc : List Str := ["sbx".toList]
def placeholder : Str := "{B}".toList

/-- replace every occurrence of `{B}` -/
def substB : Nat → Str → Str
  | 0, s => s
  | _, [] => []
  | n + 1, c :: cs =>
    if placeholder.isPrefixOf (c :: cs) then baseStr ++ substB n ((c :: cs).drop placeholder.length)
    else c :: substB n cs

def subst (s : Str) : Str := substB (s.length + 1) s

/-- canonical content of an `f:` entry, unique per path: valid Turtle and N-Triples, or (name ending
in `.jsonld`) a JSON-LD document that is also usable as a remote context -/
def marker (rel : String) : Str :=
  let h := hexOfString rel
  if rel.endsWith ".jsonld" then
    ("{\"@context\":{\"vhmark\":\"urn:vh:ctx:" ++ h ++ "\"},\"@id\":\"urn:vh:file:" ++ h ++
      "\",\"urn:vh:is\":\"" ++ h ++ "\"}\n").toList
  else ("<urn:vh:file:" ++ h ++ "> <urn:vh:is> \"" ++ h ++ "\" .\n").toList

def parseCfg (tok : String) : Option (List (Str × Str)) :=
  if tok == "-" then some [] else
  (tok.splitOn ",").mapM (fun e =>
    match e.splitOn ":" with
    | [a, b] => do
      let ns ← charsOfHex a
      let d ← charsOfHex b
      pure (ns, subst d)
    | _ => none)

def relLoc (rel : String) : List Str := baseLoc ++ (splitSlash rel.toList).filter (· ≠ [])

def parseFs (tok : String) : Option FS :=
  if tok == "-" then some ⟨[(baseLoc, .dir)]⟩ else do
  let es ← (tok.splitOn ",").mapM (fun e =>
    match e.splitOn ":" with
    | ["f", p] => do
      let rel ← stringOfHex p
      pure (some (relLoc rel, Node.file (marker rel)))
    | ["d", p] => do
      let rel ← stringOfHex p
      pure (some (relLoc rel, Node.dir))
    | ["c", p, c] => do
      let rel ← stringOfHex p
      let content ← charsOfHex c
      pure (some (relLoc rel, Node.file (subst content)))
    -- a symbolic link: the model's file system has none (assumption of the property)
    | ["s", _, _] => pure none
    | _ => none)
  pure ⟨(baseLoc, .dir) :: es.filterMap id⟩

/-- the `s:` entries of a file-system token: (location of the link, target) -/
def parseLinks (tok : String) : Option (List (List Str × Str)) :=
  if tok == "-" then some [] else do
  let es ← (tok.splitOn ",").mapM (fun e =>
    match e.splitOn ":" with
    | ["s", p, t] => do
      let rel ← stringOfHex p
      let target ← charsOfHex t
      pure (some (relLoc rel, subst target))
    | _ => pure none)
  pure (es.filterMap id)

def newErrName : NewErr → String
  | .iriMustEndWithSlash => "slash"
  | .pathMustBeAbsolute => "abs"
  | .pathMustBeDirectory => "dir"

def openErrName : OpenErr → String
  | .notFound => "notfound"
  | .notDir => "notdir"
  | .isDir => "isdir"
  | .nameTooLong => "toolong"
  | .nul => "nul"
  | .loop => "loop"

/-- where the opened path lands, relative to the sandbox base -/
def readName (p : Str) : String :=
  match osResolve p with
  | b :: rest =>
    if [b] = baseLoc ∧ rest ≠ [] then hexOfChars (List.intercalate ['/'] rest) else "outside"
  | [] => "outside"

def feats : Features := allFeats

def modes : List String := ["one", "any", "all", "items", "pred"]

/-- the harness builds its loader with `new(first pair)` + `add(..)` (`Default` when there is none) when this
hash of the request's IRI token is odd, with `new(all)` otherwise; so does the model -/
def viaAdd (tok : String) : Bool :=
  tok.toList.foldl (fun a c => (a * 31 + c.toNat) % 4294967296) 0 % 2 == 1

def build (fs : FS) (caches : List (Str × Str)) (va : Bool) : Except NewErr Cfg :=
  if va then
    match caches with
    | [] => .ok []
    | c :: rest => do
      let l ← Loader.new fs [c]
      rest.foldlM (fun acc nd => Loader.add fs acc nd) l
  else Loader.new fs caches

/-! the N-Triples documents the generator writes: `<s> <p> <o> .` lines over IRIs, `_:b` nodes and plain
literals without spaces -/
def parseTerm (t : Str) : Option RTerm :=
  match t with
  | '<' :: rest => if rest.getLast? = some '>' then some (.iri rest.dropLast) else none
  | '_' :: ':' :: rest => some (.bnode rest)
  | '"' :: rest => some (.lit rest)
  | _ => none

def splitOnChar (c : Char) (s : Str) : List Str :=
  (s.foldr (fun x acc => if x = c then [] :: acc else match acc with
    | h :: t => (x :: h) :: t
    | [] => [[x]]) [[]])

def parseNt (content : Str) : Option RGraph :=
  ((splitOnChar '\n' content).filter (· ≠ [])).mapM (fun line =>
    match splitOnChar ' ' line with
    | [a, b, c, ['.']] => do
      let s ← parseTerm a
      let p ← parseTerm b
      let o ← parseTerm c
      pure (s, p, o)
    | _ => none)

def pLink : RTerm := .iri "urn:vh:p".toList
def pList : RTerm := .iri "urn:vh:q".toList
def pRev : RTerm := .iri "urn:vh:r".toList
def ntType : Str := "application/n-triples".toList

/-- the entry point of `Resource` a mode stands for, on the model: the `Follow` it returns, if any -/
def followBy (mode : String) (E : Env) (r : Res) : Option Follow :=
  match mode with
  | "one" => match (getResource E r pLink).1 with | .ok F => some F | .error _ => none
  | "any" => (getAnyResource E r pLink).1
  | "all" => (getAllResources E r pLink).head?
  | "items" => (getResourceItems E r pList (r.graph.length + 1)).head?
  | "pred" => match (predResource E r pRev).1 with | .ok F => some F | .error _ => none
  | _ => none

def followReply (cfg : Cfg) (t : Str) : Follow → List String
  | .notAbsolute => [kv "fres" "notabsolute", kv "read" "none"]
  | .sameDoc => [kv "fres" "samedoc", kv "read" "none"]
  | .loaded (.ok q _ _) => [kv "fres" "read", kv "read" (readName q), kvB "mescaped" (!decide (ConfinedAt cfg t q))]
  | .loaded (.err e) =>
    let r := match e with
      | .unsupported => "unsupported"
      | .notFound => "notfound"
      | .io _ => "io"
    [kv "fres" r, kv "read" "none"]

/-- `l` requests.  `get_resource(doc#lk)`, then the entry point named by the mode.  For an N-Triples
document the model parses it, finds the link itself (`get_term(P_LINK)`) and runs its own `Resource`
model (`getResource` / `getAnyResource` / `getAllResources` / `getResourceItems` / `predResource`); for the
other documents (Turtle: the parser resolves references) it contributes the oracle only. -/
def handleL (c f i p mode : String) (link : Option Str) : String :=
  match parseCfg c, parseFs f, charsOfHex i, charsOfHex p with
  | some caches, some fs, some iri0, some _ =>
    match build fs caches (viaAdd i) with
    | .error e => reply [kv "new" (newErrName e)]
    | .ok cfg =>
      -- `linkdiff` (following a link reads what `get` reads for that IRI) is model behaviour, not the property
      let oracle := [kv "new" "ok", kv "o.escaped" "0", kv "linkdiff" "0"]
      let iri := subst iri0
      match getResourceRead (getCur feats) cfg fs iri with
      | .err _ => reply oracle
      | .ok _ data ct =>
        match (if ct = ntType then parseNt data else none) with
        | none => reply oracle
        | some g =>
          let E : Env := ⟨fun _ => true, getCur feats, cfg, fs⟩
          let r : Res := ⟨.iri iri, some (stripFragment iri), g⟩
          match getTerm r pLink with
          | .ok (.iri t) =>
            let given := match link with
              | some l => [kvB "linkgiven" (subst l == t)]
              | none => []
            match followBy mode E r with
            | some F => reply (oracle ++ followReply cfg t F ++ given ++ [kv "graph" (toString g.length)])
            | none => reply (oracle ++ given)
          | .error .multiple =>
            let one := match (getResource E r pLink).1 with
              | .error .multiple => "multiple"
              | .ok _ => "ok"
              | .error .noValue => "err"
            reply (oracle ++ [kv "link" "multiple", kv "one" one])
          | .error .noValue => reply (oracle ++ [kv "link" "none"])
          | .ok _ => reply (oracle ++ [kv "link" "notiri"])
  | _, _, _, _ => "bad-hex"

def handle (line : String) : String :=
  match fields line with
  | ["g", c, f, i] =>
    match parseCfg c, parseFs f, charsOfHex i with
    | some caches, some fs, some iri0 =>
      let iri := subst iri0
      match build fs caches (viaAdd i) with
      | .error e => reply [kv "new" (newErrName e)]
      | .ok cfg =>
        let safe := decide (SafeIri cfg iri)
        match getCur feats cfg fs iri with
        | .ok p _ ct =>
          let esc := !decide (ConfinedAt cfg iri p)
          reply [kv "new" "ok", kv "feat" "jsonld+xml", kv "res" "ok", kv "io" "none", kv "read" (readName p),
                 kv "ct" (hexOfChars ct), kvB "escaped" esc, kv "o.escaped" "0", kvB "safe" safe,
                 kvB "guard" Gen.LoaderExts.guardPresent, kv "opened" (hexOfChars p)]
        | .err e =>
          let (r, io) := match e with
            | .unsupported => ("unsupported", "none")
            | .notFound => ("notfound", "none")
            | .io k => ("io", openErrName k)
          reply [kv "new" "ok", kv "feat" "jsonld+xml", kv "res" r, kv "io" io, kv "read" "none", kv "ct" "none",
                 kv "escaped" "0", kv "o.escaped" "0", kvB "safe" safe, kvB "guard" Gen.LoaderExts.guardPresent]
    | _, _, _ => "bad-hex"
  | ["l", c, f, i, p] => handleL c f i p "one" none
  | ["l", c, f, i, p, m] => if modes.contains m then handleL c f i p m none else "bad-op"
  | ["l", c, f, i, p, m, g] =>
    if !modes.contains m then "bad-op"
    else if g == "-" then handleL c f i p m none
    else match charsOfHex g with
      | some link => handleL c f i p m (some link)
      | none => "bad-hex"
  | ["j", c, f, i] =>
    match parseCfg c, parseFs f, charsOfHex i with
    | some caches, some fs, some _ =>
      match build fs caches (viaAdd i) with
      | .error e => reply [kv "new" (newErrName e)]
      | .ok _ => reply [kv "new" "ok", kv "o.escaped" "0", kv "unlogged" "0", kv "spysame" "1"]
    | _, _, _ => "bad-hex"
  | ["y", c, f, i, k] =>
    if k != "in" && k != "out" then "bad-op" else
    match parseCfg c, parseFs f, parseLinks f, charsOfHex i with
    | some caches, some fs, some links, some iri0 =>
      match build fs caches (viaAdd i) with
      | .error e => reply [kv "new" (newErrName e)]
      | .ok cfg =>
        let iri := subst iri0
        let fsl : FSL := ⟨fs, links⟩
        let fuel := 5000
        match getCurL feats cfg fsl fuel iri with
        | .ok q _ _ =>
          -- where the OS finds the file behind the opened path
          let loc := match statL fsl fuel q with
            | .ok (l, _) => l
            | .error _ => []
          let name := match loc with
            | b :: rest => if [b] = baseLoc ∧ rest ≠ [] then hexOfChars (List.intercalate ['/'] rest) else "outside"
            | [] => "outside"
          let inside := cfg.any (fun nd => nd.1.isPrefixOf (stripFragment iri) && (osResolve nd.2).isPrefixOf loc)
          reply [kv "new" "ok", kv "sym" "ok", kv "symread" name, kvB "symesc" (!inside),
                 kvB "lexical" (decide (ConfinedAt cfg iri q))]
        | .err e =>
          let r := match e with
            | .unsupported => "unsupported"
            | .notFound => "notfound"
            | .io _ => "io"
          reply [kv "new" "ok", kv "sym" r, kv "symread" "none", kv "symesc" "0"]
    | _, _, _, _ => "bad-hex"
  | _ => "bad-op"

abbrev State := Unit
def init : State := ()
def step (_ : State) (line : String) : State × String := ((), handle line)

end SophiaModel.Driver.C19

def main : IO UInt32 := SophiaModel.Proto.runLoop SophiaModel.Driver.C19.init SophiaModel.Driver.C19.step
