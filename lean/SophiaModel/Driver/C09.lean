import SophiaModel.Basic.Proto
import SophiaModel.Model.Iri3987
import SophiaModel.Gen.Regexes
import SophiaModel.Model.Resolve3986

namespace SophiaModel.Driver.C09
open SophiaModel Proto Re

/-- `m <hex>`: acceptance by the generated validators (model of the implementation) and by the
RFC 3987 grammar (oracle). -/
def handle (line : String) : String :=
  match fields line with
  | ["m", h] =>
    match stringOfHex h with
    | none => "bad-hex"
    | some s =>
      let w := ofStr s
      let a := matchB Gen.IRI_REGEX w
      let r := matchB Gen.IRELATIVE_REF_REGEX w
      reply [kvB "abs" a, kvB "rel" r, kvB "ref" (a || r),
             kvB "o.abs" (matchB Rfc3987.IRI w), kvB "o.rel" (matchB Rfc3987.irelativeRef w)]
  | ["r", hb, hr] =>
    match stringOfHex hb, stringOfHex hr with
    | some b, some r =>
      if matchB Gen.IRI_REGEX (ofStr b) && matchB Gen.IRI_REF_REGEX (ofStr r) then
        let res := Rfc3986.resolve b.toList r.toList
        reply [kv "o.res" (hexOfChars res), kv "o.valid" "1", kv "o.paths_agree" "1",
               kvB "res_is_rfc_iri" (matchB Rfc3987.IRI (res.map Char.toNat))]
      else "skip=1"
    | _, _ => "bad-hex"
  | ["witness"] =>
    let f := fun (o : Option (List Nat)) => match o with
      | none => "none"
      | some w => hexOfString (String.ofList (w.map Char.ofNat))
    reply [kv "abs" (f (witness Gen.IRI_REGEX Rfc3987.IRI)),
           kv "rel" (f (witness Gen.IRELATIVE_REF_REGEX Rfc3987.irelativeRef)),
           kv "disj" (f (witnessP okDisj Gen.IRI_REGEX Gen.IRELATIVE_REF_REGEX))]
  | _ => "bad-op"

abbrev State := Unit
def init : State := ()
def step (_ : State) (line : String) : State × String := ((), handle line)

end SophiaModel.Driver.C09

def main : IO UInt32 := SophiaModel.Proto.runLoop SophiaModel.Driver.C09.init SophiaModel.Driver.C09.step
