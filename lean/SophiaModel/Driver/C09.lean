import SophiaModel.Basic.Proto
import SophiaModel.Model.Iri3987
import SophiaModel.Model.IriWrapper
import SophiaModel.Model.Resolve3986
import SophiaModel.Model.OxiriResolve

namespace SophiaModel.Driver.C09
open SophiaModel Proto Re

def rfcAbs (w : List Nat) : Bool := matchB Rfc3987.IRI w
def rfcRel (w : List Nat) : Bool := matchB Rfc3987.irelativeRef w

/-- model fields (what the code does, as wired in /repo) and oracle fields `o.*` (what RFC 3987
demands) for one string: the three validators, `Iri::new` / `IriRef::new`, `BaseIri::new` /
`BaseIriRef::new`, `as_base` / `to_base` on every accepted value. -/
def membership (s : String) : String :=
  let w := ofStr s
  let oa := rfcAbs w
  let orl := rfcRel w
  reply [kvB "abs" (IriWrapper.isAbsolute w), kvB "rel" (IriWrapper.isRelative w), kvB "ref" (IriWrapper.isValidRef w),
         kvB "new_abs" (IriWrapper.iriNew w), kvB "new_ref" (IriWrapper.iriRefNew w),
         kvB "sfx_none" (IriWrapper.suffixed w none),
         kvB "bnew" (IriWrapper.baseIriNew w), kvB "brnew" (IriWrapper.baseIriRefNew w),
         kvB "o.abs" oa, kvB "o.rel" orl, kvB "o.ref" (oa || orl),
         kvB "o.new_abs" oa, kvB "o.new_ref" (oa || orl), kvB "o.sfx_none" (oa || orl),
         -- every accepted value can be used as a base (compared only where the implementation
         -- could construct the value at all)
         kv "o.base" "ok", kv "o.tobase" "ok", kv "o.refbase" "ok", kv "o.reftobase" "ok"]

/-- long inputs are described, not transmitted: both sides build the same string -/
def rep (n : Nat) (s : String) : String := String.join (List.replicate n s)

def longStr (kind n : Nat) : Option String :=
  match kind with
  | 0 => some ("http://a/" ++ rep n "ab/")
  | 1 => some ("http://a/?" ++ rep n "q=1&")
  | 2 => some ("x:" ++ rep n "%4a")
  | 3 => some ("http://" ++ rep n "a" ++ "/")
  | 4 => some (rep n "../" ++ "g")
  | 5 => some ("http://a/" ++ rep n "é")
  | 6 => some ("http://a/" ++ rep n "a" ++ " ")
  | 7 => some ("http://[" ++ rep n "1:" ++ "]/")
  | 8 => some ("//u@h:1/" ++ rep n "a/" ++ "#" ++ rep n "f")
  | 9 => some (rep n "a" ++ ":b")
  | 10 => some ("http://a/" ++ rep n "b/" ++ "%4")
  | 11 => some ("?" ++ rep n (String.singleton (Char.ofNat 0xE000)))
  | _ => none

/-- long (base, reference) pairs -/
def longPair (kind n : Nat) : Option (String × String) :=
  match kind with
  | 0 => some ("http://a/" ++ rep n "b/" ++ "c", rep (n / 2) "../" ++ "g")
  | 1 => some ("http://a/b", rep n "x/" ++ rep n "../" ++ "g")
  | 2 => some ("x:/" ++ rep n "b/", rep n "./" ++ "g?" ++ rep n "q")
  | 3 => some ("http://a/" ++ rep n "b", rep n "c" ++ "#" ++ rep n "f")
  | _ => none

def hexOfOptStr : Option Str → String
  | none => "panic"
  | some r => hexOfChars r

def resolveAbs (b r : String) : String :=
  let wb := ofStr b
  let wr := ofStr r
  if IriWrapper.iriNew wb && IriWrapper.iriRefNew wr then
    let res := Rfc3986.resolve b.toList r.toList
    -- `valid`: the implementation's result must be an accepted absolute IRI.  `res_is_rfc_iri`
    -- (model only, informational): is the RFC result itself an IRI?  It is NOT always: §5.2.4 can
    -- leave a path beginning with "//" on an authority-less base (`x:a` + `a/..//b:c//` gives
    -- `x://b:c//`, whose "authority" `b:c` has a non-numeric port).  No implementation can satisfy
    -- both halves of the clause there, so nothing is demanded of that flag.
    reply [kv "skip" "0", kv "o.res" (hexOfChars res), kv "o.valid" "1", kv "o.paths_agree" "1",
           kv "ox.res" (hexOfOptStr (OxiriResolve.resolve b.toList r.toList)),
           kvB "res_is_rfc_iri" (rfcAbs (res.map Char.toNat))]
  else "skip=1"

/-- any accepted reference (relative ones included) as the base: `IriRef::resolve`,
`BaseIriRef::resolve/resolve_into`.  The property demands: no panic, the result is an accepted
reference, all paths agree; with an absolute base, the RFC 3986 §5.2 result. -/
def resolveRef (b r : String) : String :=
  let wb := ofStr b
  let wr := ofStr r
  if IriWrapper.iriRefNew wb && IriWrapper.iriRefNew wr then
    let fs := [kv "skip" "0", kv "o.rpanic" "0", kv "o.rvalid" "1", kv "o.rpaths_agree" "1",
               kv "ox.res" (hexOfOptStr (OxiriResolve.resolve b.toList r.toList))]
    if rfcAbs wb then
      reply (fs ++ [kv "o.rres" (hexOfChars (Rfc3986.resolve b.toList r.toList)), kv "o.rabs" "1"])
    else reply fs
  else "skip=1"

def namespaceReq (ns sfx : String) : String :=
  let wn := ofStr ns
  let ws := ofStr sfx
  let rfcRef := fun (w : List Nat) => rfcAbs w || rfcRel w
  let getS := fun (o : Option Bool) => match o with | none => "na" | some true => "ok" | some false => "err"
  let oget : Option Bool := if rfcRef wn then some (rfcRef (wn ++ ws)) else none
  reply [kvB "ns_new" (IriWrapper.namespaceNew wn), kv "get" (getS (IriWrapper.namespaceGet wn ws)),
         kvB "sfx" (IriWrapper.suffixed wn (some ws)), kvB "sfx_none" (IriWrapper.suffixed wn none),
         kv "term" (hexOfString (String.ofList ((IriWrapper.nsTermStr wn ws).map Char.ofNat))),
         kvB "o.ns_new" (rfcRef wn), kv "o.get" (getS oget), kvB "o.sfx" (rfcRef (wn ++ ws)),
         kvB "o.sfx_none" (rfcRef wn), kv "o.term" (hexOfString (ns ++ sfx)), kv "o.term_iri" "ok"]

def handle (line : String) : String :=
  match fields line with
  | ["m", h] =>
    match stringOfHex h with
    | none => "bad-hex"
    | some s => membership s
  | ["ml", k, n] =>
    match k.toNat?, n.toNat? with
    | some k, some n => match longStr k n with
      | some s => membership s
      | none => "bad-op"
    | _, _ => "bad-op"
  | ["r", hb, hr] =>
    match stringOfHex hb, stringOfHex hr with
    | some b, some r => resolveAbs b r
    | _, _ => "bad-hex"
  | ["rl", k, n] =>
    match k.toNat?, n.toNat? with
    | some k, some n => match longPair k n with
      | some (b, r) => resolveAbs b r
      | none => "bad-op"
    | _, _ => "bad-op"
  | ["rr", hb, hr] =>
    match stringOfHex hb, stringOfHex hr with
    | some b, some r => resolveRef b r
    | _, _ => "bad-hex"
  | ["ns", hn, hs] =>
    match stringOfHex hn, stringOfHex hs with
    | some ns, some sfx => namespaceReq ns sfx
    | _, _ => "bad-hex"
  | ["witness"] =>
    let f := fun (o : Option (List Nat)) => match o with
      | none => "none"
      | some w => hexOfString (String.ofList (w.map Char.ofNat))
    reply [kv "abs" (f (witness Gen.Iri.IRI_REGEX Rfc3987.IRI)),
           kv "rel" (f (witness Gen.Iri.IRELATIVE_REF_REGEX Rfc3987.irelativeRef)),
           kv "disj" (f (witnessP okDisj Gen.Iri.IRI_REGEX Gen.Iri.IRELATIVE_REF_REGEX)),
           kv "absbase" (f (witnessP okIncl Gen.Iri.IRI_REGEX Backend.Oxiri.abs)),
           kv "refbase" (f (witnessP okIncl Gen.Iri.IRI_REF_REGEX Backend.Oxiri.ref))]
  | _ => "bad-op"

abbrev State := Unit
def init : State := ()
def step (_ : State) (line : String) : State × String := ((), handle line)

end SophiaModel.Driver.C09

def main : IO UInt32 := SophiaModel.Proto.runLoop SophiaModel.Driver.C09.init SophiaModel.Driver.C09.step
