/-
Regular expressions over code points (`Nat`), denotational semantics, Antimirov partial
derivatives and their correctness.  No imports beyond core.
-/
namespace SophiaModel

/-- Regular expressions over code points. A class is a list of inclusive ranges. -/
inductive Re where
  | emp
  | eps
  | cls (rs : List (Nat × Nat))
  | cat (a b : Re)
  | alt (a b : Re)
  | star (a : Re)
  deriving Repr, DecidableEq, Inhabited

namespace Re

/-- membership of a code point in a class -/
def inCls (rs : List (Nat × Nat)) (c : Nat) : Bool :=
  rs.any (fun r => r.1 ≤ c && c ≤ r.2)

/-- Denotational semantics. -/
inductive Matches : Re → List Nat → Prop where
  | eps : Matches .eps []
  | cls {rs c} : inCls rs c = true → Matches (.cls rs) [c]
  | cat {a b u v} : Matches a u → Matches b v → Matches (.cat a b) (u ++ v)
  | altL {a b w} : Matches a w → Matches (.alt a b) w
  | altR {a b w} : Matches b w → Matches (.alt a b) w
  | star0 {a} : Matches (.star a) []
  | starS {a u v} : Matches a u → Matches (.star a) v → Matches (.star a) (u ++ v)

def nullable : Re → Bool
  | emp => false
  | eps => true
  | cls _ => false
  | cat a b => nullable a && nullable b
  | alt a b => nullable a || nullable b
  | star _ => true

/-- Antimirov partial derivative: a finite set (list) of expressions. -/
def pder (c : Nat) : Re → List Re
  | emp => []
  | eps => []
  | cls rs => if inCls rs c then [eps] else []
  | cat a b => (pder c a).map (fun a' => cat a' b) ++ (if nullable a then pder c b else [])
  | alt a b => pder c a ++ pder c b
  | star a => (pder c a).map (fun a' => cat a' (star a))

theorem matches_emp {w} : ¬ Matches emp w := by intro h; cases h
theorem matches_eps {w} : Matches eps w ↔ w = [] := by
  constructor
  · intro h; cases h; rfl
  · intro h; subst h; exact .eps
theorem matches_cls {rs w} : Matches (cls rs) w ↔ ∃ c, w = [c] ∧ inCls rs c = true := by
  constructor
  · intro h; cases h with | cls h => exact ⟨_, rfl, h⟩
  · rintro ⟨c, rfl, h⟩; exact .cls h
theorem matches_cat {a b w} : Matches (cat a b) w ↔ ∃ u v, w = u ++ v ∧ Matches a u ∧ Matches b v := by
  constructor
  · intro h; cases h with | cat h1 h2 => exact ⟨_, _, rfl, h1, h2⟩
  · rintro ⟨u, v, rfl, h1, h2⟩; exact .cat h1 h2
theorem matches_alt {a b w} : Matches (alt a b) w ↔ Matches a w ∨ Matches b w := by
  constructor
  · intro h; cases h with
    | altL h => exact .inl h
    | altR h => exact .inr h
  · rintro (h | h)
    · exact .altL h
    · exact .altR h

theorem nullable_iff (r : Re) : nullable r = true ↔ Matches r [] := by
  induction r with
  | emp => simp [nullable, matches_emp]
  | eps => simp [nullable, matches_eps]
  | cls rs => simp [nullable, matches_cls]
  | cat a b iha ihb =>
    simp only [nullable, Bool.and_eq_true, iha, ihb, matches_cat]
    constructor
    · rintro ⟨h1, h2⟩; exact ⟨[], [], rfl, h1, h2⟩
    · rintro ⟨u, v, h, h1, h2⟩
      have : u = [] ∧ v = [] := by simpa using h.symm
      obtain ⟨rfl, rfl⟩ := this
      exact ⟨h1, h2⟩
  | alt a b iha ihb => simp [nullable, iha, ihb, matches_alt]
  | star a _ => simp only [nullable, true_iff]; exact .star0

/-- star unfolding on a non-empty word -/
theorem matches_star_cons {a c w} :
    Matches (star a) (c :: w) ↔ ∃ u v, w = u ++ v ∧ Matches a (c :: u) ∧ Matches (star a) v := by
  constructor
  · intro h
    generalize hr : star a = r at h
    generalize hx : c :: w = x at h
    induction h generalizing w with
    | eps => cases hr
    | cls _ => cases hr
    | cat _ _ => cases hr
    | altL _ => cases hr
    | altR _ => cases hr
    | star0 => cases hx
    | @starS a' u v h1 h2 _ ih2 =>
      cases hr
      cases u with
      | nil =>
        simp only [List.nil_append] at hx
        exact ih2 rfl hx
      | cons d u' =>
        simp only [List.cons_append, List.cons.injEq] at hx
        obtain ⟨rfl, rfl⟩ := hx
        exact ⟨u', v, rfl, h1, h2⟩
  · rintro ⟨u, v, rfl, h1, h2⟩
    exact (List.cons_append ▸ Matches.starS h1 h2 : Matches (star a) (c :: u ++ v))

/-- Correctness of partial derivatives. -/
theorem pder_iff (c : Nat) (r : Re) (w : List Nat) :
    Matches r (c :: w) ↔ ∃ r' ∈ pder c r, Matches r' w := by
  induction r generalizing w with
  | emp => simp [pder, matches_emp]
  | eps => simp [pder, matches_eps]
  | cls rs =>
    simp only [pder, matches_cls]
    constructor
    · rintro ⟨d, h, hd⟩
      simp only [List.cons.injEq] at h
      obtain ⟨rfl, rfl⟩ := h
      simp [hd, matches_eps]
    · rintro ⟨r', hr', hm⟩
      split at hr'
      · simp only [List.mem_singleton] at hr'
        subst hr'
        rw [matches_eps] at hm; subst hm
        exact ⟨c, rfl, by assumption⟩
      · cases hr'
  | cat a b iha ihb =>
    simp only [pder, matches_cat, List.mem_append, List.mem_map]
    constructor
    · rintro ⟨u, v, h, h1, h2⟩
      cases u with
      | nil =>
        simp only [List.nil_append] at h
        subst h
        have hn : nullable a = true := (nullable_iff a).2 h1
        obtain ⟨r', hr', hm⟩ := (ihb w).1 h2
        exact ⟨r', .inr (by simp [hn, hr']), hm⟩
      | cons d u' =>
        simp only [List.cons_append, List.cons.injEq] at h
        obtain ⟨rfl, rfl⟩ := h
        obtain ⟨a', ha', hm⟩ := (iha u').1 h1
        exact ⟨cat a' b, .inl ⟨a', ha', rfl⟩, matches_cat.2 ⟨u', v, rfl, hm, h2⟩⟩
    · rintro ⟨r', hr' | hr', hm⟩
      · obtain ⟨a', ha', rfl⟩ := hr'
        obtain ⟨u, v, rfl, h1, h2⟩ := matches_cat.1 hm
        exact ⟨c :: u, v, rfl, (iha u).2 ⟨a', ha', h1⟩, h2⟩
      · split at hr'
        · rename_i hn
          exact ⟨[], c :: w, rfl, (nullable_iff a).1 hn, (ihb w).2 ⟨r', hr', hm⟩⟩
        · cases hr'
  | alt a b iha ihb =>
    simp only [pder, matches_alt, List.mem_append, iha, ihb]
    constructor
    · rintro (⟨r', h, hm⟩ | ⟨r', h, hm⟩)
      · exact ⟨r', .inl h, hm⟩
      · exact ⟨r', .inr h, hm⟩
    · rintro ⟨r', h | h, hm⟩
      · exact .inl ⟨r', h, hm⟩
      · exact .inr ⟨r', h, hm⟩
  | star a iha =>
    simp only [pder, List.mem_map, matches_star_cons]
    constructor
    · rintro ⟨u, v, rfl, h1, h2⟩
      obtain ⟨a', ha', hm⟩ := (iha u).1 h1
      exact ⟨cat a' (star a), ⟨a', ha', rfl⟩, matches_cat.2 ⟨u, v, rfl, hm, h2⟩⟩
    · rintro ⟨r', ⟨a', ha', rfl⟩, hm⟩
      obtain ⟨u, v, rfl, h1, h2⟩ := matches_cat.1 hm
      exact ⟨u, v, rfl, (iha u).2 ⟨a', ha', h1⟩, h2⟩

end Re
end SophiaModel
