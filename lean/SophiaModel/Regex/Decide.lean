/-
Set-of-partial-derivatives automaton, boolean matcher, interval representatives and a
*checked certificate* for language equivalence.  Soundness is proved; the explorer that
produces certificates is not trusted.
-/
import SophiaModel.Regex.Re
import Std.Data.HashMap

namespace SophiaModel
namespace Re

/-! ### a total comparison used only to canonicalise sets (lawfulness is not needed) -/

def cmpRanges : List (Nat × Nat) → List (Nat × Nat) → Ordering
  | [], [] => .eq
  | [], _ :: _ => .lt
  | _ :: _, [] => .gt
  | (a, b) :: xs, (c, d) :: ys =>
    if a < c then .lt else if c < a then .gt
    else if b < d then .lt else if d < b then .gt
    else cmpRanges xs ys

def tag : Re → Nat
  | emp => 0 | eps => 1 | cls _ => 2 | cat _ _ => 3 | alt _ _ => 4 | star _ => 5

def cmp : Re → Re → Ordering
  | cls r1, cls r2 => cmpRanges r1 r2
  | cat a1 b1, cat a2 b2 => match cmp a1 a2 with
    | .eq => cmp b1 b2
    | o => o
  | alt a1 b1, alt a2 b2 => match cmp a1 a2 with
    | .eq => cmp b1 b2
    | o => o
  | star a1, star a2 => cmp a1 a2
  | x, y => compare (tag x) (tag y)

/-! ### generic sorted-insert with exact duplicate removal -/

section Ins
variable {α : Type} [DecidableEq α] (cmpA : α → α → Ordering)

def ins (x : α) : List α → List α
  | [] => [x]
  | y :: ys =>
    if x = y then y :: ys
    else match cmpA x y with
      | .lt => x :: y :: ys
      | _ => y :: ins x ys

theorem mem_ins {x z : α} {l : List α} : z ∈ ins cmpA x l ↔ z = x ∨ z ∈ l := by
  induction l with
  | nil => simp [ins]
  | cons y ys ih =>
    unfold ins
    split
    · rename_i h; subst h; simp
    · split
      · simp
      · simp only [List.mem_cons, ih]
        constructor
        · rintro (h | h | h) <;> simp [h]
        · rintro (h | h | h) <;> simp [h]

def normL (l : List α) : List α := l.foldr (ins cmpA) []

theorem mem_normL {z : α} {l : List α} : z ∈ normL cmpA l ↔ z ∈ l := by
  induction l with
  | nil => simp [normL]
  | cons y ys ih =>
    simp only [normL, List.foldr_cons, List.mem_cons] at *
    rw [mem_ins, ih]
end Ins

/-! ### set automaton -/

abbrev RSet := List Re

def accepts (S : RSet) (w : List Nat) : Prop := ∃ r ∈ S, Matches r w

def nullSet (S : RSet) : Bool := S.any nullable

def stepSet (c : Nat) (S : RSet) : RSet := normL cmp (S.flatMap (pder c))

theorem accepts_nil (S : RSet) : accepts S [] ↔ nullSet S = true := by
  simp only [accepts, nullSet, List.any_eq_true]
  constructor
  · rintro ⟨r, h, hm⟩; exact ⟨r, h, (nullable_iff r).2 hm⟩
  · rintro ⟨r, h, hn⟩; exact ⟨r, h, (nullable_iff r).1 hn⟩

theorem accepts_cons (S : RSet) (c : Nat) (w : List Nat) :
    accepts S (c :: w) ↔ accepts (stepSet c S) w := by
  simp only [accepts, stepSet, mem_normL, List.mem_flatMap]
  constructor
  · rintro ⟨r, h, hm⟩
    obtain ⟨r', hr', hm'⟩ := (pder_iff c r w).1 hm
    exact ⟨r', ⟨r, h, hr'⟩, hm'⟩
  · rintro ⟨r', ⟨r, h, hr'⟩, hm'⟩
    exact ⟨r, h, (pder_iff c r w).2 ⟨r', hr', hm'⟩⟩

/-- executable matcher on a set -/
def matchSet (S : RSet) : List Nat → Bool
  | [] => nullSet S
  | c :: w => matchSet (stepSet c S) w

theorem matchSet_iff (S : RSet) (w : List Nat) : matchSet S w = true ↔ accepts S w := by
  induction w generalizing S with
  | nil => simp [matchSet, accepts_nil]
  | cons c w ih => simp [matchSet, ih, accepts_cons]

/-- executable matcher -/
def matchB (r : Re) (w : List Nat) : Bool := matchSet [r] w

theorem matchB_iff (r : Re) (w : List Nat) : matchB r w = true ↔ Matches r w := by
  simp [matchB, matchSet_iff, accepts]

instance (r : Re) (w : List Nat) : Decidable (Matches r w) :=
  decidable_of_iff _ (matchB_iff r w)

/-! ### interval representatives -/

/-- boundaries of the classes of an expression: every `lo` and every `hi+1` -/
def atoms : Re → List Nat
  | emp => []
  | eps => []
  | cls rs => rs.flatMap (fun r => [r.1, r.2 + 1])
  | cat a b => atoms a ++ atoms b
  | alt a b => atoms a ++ atoms b
  | star a => atoms a

/-- the greatest boundary `≤ c` (or 0) -/
def rep (B : List Nat) (c : Nat) : Nat := (B.filter (· ≤ c)).foldl max 0

theorem foldl_max_ge (l : List Nat) (a : Nat) : a ≤ l.foldl max a := by
  induction l generalizing a with
  | nil => simp
  | cons x xs ih => exact Nat.le_trans (Nat.le_max_left a x) (ih _)

theorem foldl_max_mem_le (l : List Nat) (a x : Nat) (h : x ∈ l) : x ≤ l.foldl max a := by
  induction l generalizing a with
  | nil => cases h
  | cons y ys ih =>
    simp only [List.mem_cons] at h
    rcases h with rfl | h
    · exact Nat.le_trans (Nat.le_max_right a x) (foldl_max_ge ys _)
    · exact ih _ h

theorem foldl_max_le (l : List Nat) (a c : Nat) (ha : a ≤ c) (h : ∀ x ∈ l, x ≤ c) :
    l.foldl max a ≤ c := by
  induction l generalizing a with
  | nil => simpa
  | cons y ys ih =>
    simp only [List.foldl_cons]
    apply ih
    · exact Nat.max_le.2 ⟨ha, h y (by simp)⟩
    · intro x hx; exact h x (by simp [hx])

theorem foldl_max_mem (l : List Nat) (a : Nat) : l.foldl max a = a ∨ l.foldl max a ∈ l := by
  induction l generalizing a with
  | nil => simp
  | cons y ys ih =>
    simp only [List.foldl_cons, List.mem_cons]
    rcases ih (max a y) with h | h
    · rw [h]
      rcases Nat.le_total a y with hay | hay
      · right; left; exact Nat.max_eq_right hay
      · left; exact Nat.max_eq_left hay
    · right; right; exact h

theorem rep_le (B : List Nat) (c : Nat) : rep B c ≤ c := by
  unfold rep
  apply foldl_max_le
  · exact Nat.zero_le _
  · intro x hx; simpa using (List.mem_filter.1 hx).2

theorem le_rep (B : List Nat) (c b : Nat) (hb : b ∈ B) (hbc : b ≤ c) : b ≤ rep B c := by
  unfold rep
  apply foldl_max_mem_le
  exact List.mem_filter.2 ⟨hb, by simpa using hbc⟩

theorem rep_mem (B : List Nat) (c : Nat) : rep B c ∈ 0 :: B := by
  unfold rep
  rcases foldl_max_mem (B.filter (· ≤ c)) 0 with h | h
  · rw [h]; simp
  · exact List.mem_cons_of_mem _ (List.mem_filter.1 h).1

theorem inCls_rep (B : List Nat) (rs : List (Nat × Nat)) (c : Nat)
    (h : ∀ x ∈ atoms (cls rs), x ∈ B) : inCls rs (rep B c) = inCls rs c := by
  have key : ∀ r ∈ rs, (r.1 ≤ rep B c && rep B c ≤ r.2) = (r.1 ≤ c && c ≤ r.2) := by
    intro r hr
    have h1 : r.1 ∈ B := h _ (by simp only [atoms, List.mem_flatMap]; exact ⟨r, hr, by simp⟩)
    have h2 : r.2 + 1 ∈ B := h _ (by simp only [atoms, List.mem_flatMap]; exact ⟨r, hr, by simp⟩)
    have hle := rep_le B c
    rw [Bool.eq_iff_iff]
    simp only [Bool.and_eq_true, decide_eq_true_eq]
    constructor
    · rintro ⟨ha, hb⟩
      refine ⟨Nat.le_trans ha hle, ?_⟩
      apply Nat.le_of_not_lt
      intro hlt
      have := le_rep B c (r.2 + 1) h2 hlt
      omega
    · rintro ⟨ha, hb⟩
      exact ⟨le_rep B c r.1 h1 ha, Nat.le_trans hle hb⟩
  unfold inCls
  rw [Bool.eq_iff_iff]
  simp only [List.any_eq_true]
  constructor
  · rintro ⟨r, hr, hm⟩; exact ⟨r, hr, by rw [← key r hr]; exact hm⟩
  · rintro ⟨r, hr, hm⟩; exact ⟨r, hr, by rw [key r hr]; exact hm⟩

theorem pder_rep (B : List Nat) (c : Nat) (r : Re) (h : ∀ x ∈ atoms r, x ∈ B) :
    pder (rep B c) r = pder c r := by
  induction r with
  | emp => rfl
  | eps => rfl
  | cls rs => simp only [pder, inCls_rep B rs c h]
  | cat a b iha ihb =>
    have ha : ∀ x ∈ atoms a, x ∈ B := fun x hx => h x (by simp [atoms, hx])
    have hb : ∀ x ∈ atoms b, x ∈ B := fun x hx => h x (by simp [atoms, hx])
    simp only [pder, iha ha, ihb hb]
  | alt a b iha ihb =>
    have ha : ∀ x ∈ atoms a, x ∈ B := fun x hx => h x (by simp [atoms, hx])
    have hb : ∀ x ∈ atoms b, x ∈ B := fun x hx => h x (by simp [atoms, hx])
    simp only [pder, iha ha, ihb hb]
  | star a iha =>
    simp only [pder, iha h]

theorem atoms_pder (c : Nat) (r r' : Re) (h : r' ∈ pder c r) : ∀ x ∈ atoms r', x ∈ atoms r := by
  induction r generalizing r' with
  | emp => cases h
  | eps => cases h
  | cls rs =>
    simp only [pder] at h
    split at h
    · simp only [List.mem_singleton] at h; subst h; intro x hx; cases hx
    · cases h
  | cat a b iha ihb =>
    simp only [pder, List.mem_append, List.mem_map] at h
    rcases h with ⟨a', ha', rfl⟩ | h
    · intro x hx
      simp only [atoms, List.mem_append] at hx ⊢
      rcases hx with hx | hx
      · exact .inl (iha a' ha' x hx)
      · exact .inr hx
    · split at h
      · intro x hx; simp only [atoms, List.mem_append]; exact .inr (ihb r' h x hx)
      · cases h
  | alt a b iha ihb =>
    simp only [pder, List.mem_append] at h
    intro x hx
    simp only [atoms, List.mem_append]
    rcases h with h | h
    · exact .inl (iha r' h x hx)
    · exact .inr (ihb r' h x hx)
  | star a iha =>
    simp only [pder, List.mem_map] at h
    obtain ⟨a', ha', rfl⟩ := h
    intro x hx
    simp only [atoms, List.mem_append] at hx ⊢
    rcases hx with hx | hx
    · exact iha a' ha' x hx
    · exact hx

def AtomsIn (B : List Nat) (S : RSet) : Prop := ∀ r ∈ S, ∀ x ∈ atoms r, x ∈ B

theorem atomsIn_step (B : List Nat) (c : Nat) (S : RSet) (h : AtomsIn B S) :
    AtomsIn B (stepSet c S) := by
  intro r' hr' x hx
  simp only [stepSet, mem_normL, List.mem_flatMap] at hr'
  obtain ⟨r, hr, hp⟩ := hr'
  exact h r hr x (atoms_pder c r r' hp x hx)

theorem stepSet_rep (B : List Nat) (c : Nat) (S : RSet) (h : AtomsIn B S) :
    stepSet (rep B c) S = stepSet c S := by
  unfold stepSet
  congr 1
  induction S with
  | nil => rfl
  | cons r rs ih =>
    simp only [List.flatMap_cons]
    rw [pder_rep B c r (h r (by simp)), ih (fun r' hr' => h r' (by simp [hr']))]

/-! ### certificates -/

abbrev SPair := RSet × RSet

structure Cert where
  states : List SPair
  delta : List (List Nat)
  deriving Repr, Inhabited

def boundaries (a b : Re) : List Nat := normL (fun x y => compare x y) (atoms a ++ atoms b)

def checkRow (ok : Bool → Bool → Bool) (states : List SPair) (reps : List Nat) (p : SPair) (row : List Nat) : Bool :=
  ok (nullSet p.1) (nullSet p.2) && (reps.length == row.length) &&
  (List.zip reps row).all (fun rk => states[rk.2]? == some (stepSet rk.1 p.1, stepSet rk.1 p.2))

/-- `ok` is the relation required between "a accepts w" and "b accepts w" for every word:
`(· == ·)` language equality, `(!· || ·)` inclusion, `(!(· && ·))` disjointness. -/
def checkCertP (ok : Bool → Bool → Bool) (a b : Re) (cert : Cert) : Bool :=
  let reps := 0 :: boundaries a b
  (cert.states.head? == some ([a], [b])) &&
  (cert.states.length == cert.delta.length) &&
  (List.zip cert.states cert.delta).all (fun pr => checkRow ok cert.states reps pr.1 pr.2)

theorem exists_zip_of_mem {α β : Type} {a : α} {l₁ : List α} {l₂ : List β}
    (h : a ∈ l₁) (hl : l₁.length = l₂.length) : ∃ b, (a, b) ∈ List.zip l₁ l₂ := by
  induction l₁ generalizing l₂ with
  | nil => cases h
  | cons x xs ih =>
    cases l₂ with
    | nil => simp at hl
    | cons y ys =>
      simp only [List.mem_cons] at h
      rcases h with rfl | h
      · exact ⟨y, by simp⟩
      · obtain ⟨b, hb⟩ := ih h (by simpa using hl)
        exact ⟨b, by simp [hb]⟩

theorem matchSet_cons (S : RSet) (c : Nat) (w : List Nat) :
    matchSet S (c :: w) = matchSet (stepSet c S) w := rfl

theorem checkCertP_sound (ok : Bool → Bool → Bool) (a b : Re) (cert : Cert)
    (hc : checkCertP ok a b cert = true) :
    ∀ w, ok (matchB a w) (matchB b w) = true := by
  simp only [checkCertP, Bool.and_eq_true, List.all_eq_true, beq_iff_eq] at hc
  obtain ⟨⟨hhead, hlen⟩, hrows⟩ := hc
  let B := boundaries a b
  have hBa : ∀ x ∈ atoms a, x ∈ B := fun x hx => (mem_normL _).2 (by simp [hx])
  have hBb : ∀ x ∈ atoms b, x ∈ B := fun x hx => (mem_normL _).2 (by simp [hx])
  have main : ∀ w : List Nat, ∀ p ∈ cert.states, AtomsIn B p.1 → AtomsIn B p.2 →
      ok (matchSet p.1 w) (matchSet p.2 w) = true := by
    intro w
    induction w with
    | nil =>
      intro p hp _ _
      obtain ⟨row, hrow⟩ := exists_zip_of_mem hp hlen
      have := hrows _ hrow
      simp only [checkRow, Bool.and_eq_true, beq_iff_eq] at this
      exact this.1.1
    | cons c w ih =>
      intro p hp h1 h2
      obtain ⟨row, hrow⟩ := exists_zip_of_mem hp hlen
      have hr := hrows _ hrow
      simp only [checkRow, Bool.and_eq_true, beq_iff_eq, List.all_eq_true] at hr
      obtain ⟨⟨_, hl⟩, hall⟩ := hr
      have hrep : rep B c ∈ 0 :: B := rep_mem B c
      obtain ⟨k, hk⟩ := exists_zip_of_mem hrep hl
      have hk' := hall _ hk
      have hmem : (stepSet (rep B c) p.1, stepSet (rep B c) p.2) ∈ cert.states :=
        List.mem_of_getElem? hk'
      have := ih _ hmem (atomsIn_step B _ _ h1) (atomsIn_step B _ _ h2)
      simp only at this
      rw [matchSet_cons, matchSet_cons, ← stepSet_rep B c p.1 h1, ← stepSet_rep B c p.2 h2]
      exact this
  intro w
  have hp : ([a], [b]) ∈ cert.states := List.mem_of_mem_head? (by rw [hhead]; rfl)
  exact main w _ hp (by intro r hr; simp at hr; subst hr; exact hBa)
    (by intro r hr; simp at hr; subst hr; exact hBb)

/-! ### untrusted explorer producing certificates or a violating word -/

deriving instance Hashable for Re

structure Explore where
  states : Array SPair := #[]
  words : Array (List Nat) := #[]      -- reversed access words
  index : Std.HashMap SPair Nat := {}
  delta : Array (List Nat) := #[]

/-- breadth-first exploration; `Except.error w` = a word violating `ok` -/
partial def exploreLoop (ok : Bool → Bool → Bool) (reps : List Nat) (st : Explore) (i : Nat) :
    Except (List Nat) Explore :=
  if h : i < st.states.size then
    let p := st.states[i]
    let wd := st.words[i]!
    if !(ok (nullSet p.1) (nullSet p.2)) then .error wd.reverse
    else
      let (st, row) := reps.foldl (fun (acc : Explore × List Nat) r =>
        let (st, row) := acc
        let q : SPair := (stepSet r p.1, stepSet r p.2)
        match st.index[q]? with
        | some k => (st, k :: row)
        | none =>
          let k := st.states.size
          ({ st with states := st.states.push q, words := st.words.push (r :: wd),
                     index := st.index.insert q k }, k :: row)) (st, [])
      exploreLoop ok reps { st with delta := st.delta.push row.reverse } (i + 1)
  else .ok st

def buildCertP (ok : Bool → Bool → Bool) (a b : Re) : Except (List Nat) Cert :=
  let reps := 0 :: boundaries a b
  let p0 : SPair := ([a], [b])
  let st : Explore := { states := #[p0], words := #[[]], index := ({} : Std.HashMap SPair Nat).insert p0 0 }
  match exploreLoop ok reps st 0 with
  | .ok st => .ok { states := st.states.toList, delta := st.delta.toList }
  | .error w => .error w

def decideP (ok : Bool → Bool → Bool) (a b : Re) : Bool :=
  match buildCertP ok a b with
  | .ok c => checkCertP ok a b c
  | .error _ => false

theorem decideP_sound (ok : Bool → Bool → Bool) (a b : Re) (h : decideP ok a b = true) :
    ∀ w, ok (matchB a w) (matchB b w) = true := by
  unfold decideP at h
  split at h
  · exact checkCertP_sound ok a b _ h
  · cases h

def okEq (x y : Bool) : Bool := x == y
def okIncl (x y : Bool) : Bool := !x || y
def okDisj (x y : Bool) : Bool := !(x && y)

def decideEquiv (a b : Re) : Bool := decideP okEq a b
def decideIncl (a b : Re) : Bool := decideP okIncl a b
def decideDisj (a b : Re) : Bool := decideP okDisj a b

theorem decideEquiv_sound (a b : Re) (h : decideEquiv a b = true) : ∀ w, Matches a w ↔ Matches b w := by
  intro w
  have := decideP_sound okEq a b h w
  simp only [okEq, beq_iff_eq] at this
  rw [← matchB_iff, ← matchB_iff, this]

theorem decideIncl_sound (a b : Re) (h : decideIncl a b = true) : ∀ w, Matches a w → Matches b w := by
  intro w hw
  have := decideP_sound okIncl a b h w
  rw [← matchB_iff] at hw ⊢
  simpa [okIncl, hw] using this

theorem decideDisj_sound (a b : Re) (h : decideDisj a b = true) : ∀ w, ¬ (Matches a w ∧ Matches b w) := by
  intro w ⟨h1, h2⟩
  have := decideP_sound okDisj a b h w
  rw [← matchB_iff] at h1 h2
  simp [okDisj, h1, h2] at this

/-- word (if any) violating `ok` -/
def witnessP (ok : Bool → Bool → Bool) (a b : Re) : Option (List Nat) :=
  match buildCertP ok a b with
  | .ok _ => none
  | .error w => some w

def witness (a b : Re) : Option (List Nat) := witnessP okEq a b

end Re
end SophiaModel
