/- Combinators for hand-transcribed grammars (ABNF style). -/
import SophiaModel.Regex.Decide

namespace SophiaModel
namespace Re

def chr (c : Char) : Re := .cls [(c.toNat, c.toNat)]
def rng (a b : Char) : Re := .cls [(a.toNat, b.toNat)]
def nrng (a b : Nat) : Re := .cls [(a, b)]
/-- any of the characters of a string -/
def oneOf (s : String) : Re := .cls (s.toList.map (fun c => (c.toNat, c.toNat)))
def lit (s : String) : Re := s.toList.foldr (fun c r => .cat (chr c) r) .eps
def opt (a : Re) : Re := .alt a .eps
def plus (a : Re) : Re := .cat a (.star a)
def seqs : List Re → Re
  | [] => .eps
  | [a] => a
  | a :: as => .cat a (seqs as)
def alts : List Re → Re
  | [] => .emp
  | [a] => a
  | a :: as => .alt a (alts as)
/-- exactly n copies -/
def times : Nat → Re → Re
  | 0, _ => .eps
  | 1, a => a
  | n + 1, a => .cat a (times n a)
/-- between 0 and n copies -/
def upto : Nat → Re → Re
  | 0, _ => .eps
  | n + 1, a => opt (.cat a (upto n a))
/-- between m and n copies (m ≤ n) -/
def between (m n : Nat) (a : Re) : Re := .cat (times m a) (upto (n - m) a)
/-- union of classes given as code point ranges -/
def ranges (rs : List (Nat × Nat)) : Re := .cls rs

def ofStr (s : String) : List Nat := s.toList.map Char.toNat

/-- convenience: match a `String` -/
def matchStr (r : Re) (s : String) : Bool := matchB r (ofStr s)

end Re
end SophiaModel
