/-
The std-collection graphs / datasets of `api/src/{dataset,graph}/_foreign_impl.rs`
(`Vec<Spog<T>>`, `Vec<Gspo<T>>`, `Vec<[T;3]>`; `HashSet`/`BTreeSet` of the same element types are
`Store.Spec` itself), the enumerations of `api/src/{dataset,graph}.rs` (default methods), and
`CollectibleDataset::from_quad_source` / `CollectibleGraph::from_triple_source` of the in-memory
stores (`inmem/src/{dataset,graph}.rs`).

Vector stores are modelled literally: `Vec::push`, `Vec::swap_remove`, the `while i < self.len()`
loop of `Vec<Spog<T>>::remove` / `Vec<[T;3]>::remove`, and `position` + `swap_remove` of
`Vec<Gspo<T>>::remove`.
-/
import SophiaModel.Model.Store

namespace SophiaModel.StdStore
open SophiaModel Term Store

/-! ### `Vec` -/

/-- `Vec::swap_remove(i)`: the element at `i` is replaced by the last one, which is popped -/
def swapRemove {α : Type} (l : List α) (i : Nat) : List α :=
  match l.getLast? with
  | none => l
  | some x => (l.set i x).dropLast

/-- the loop of `Vec<Spog<T>>::remove` / `Vec<[T;3]>::remove`:
```
let mut i = 0;
while i < self.len() { if self[i].matched_by(..) { self.swap_remove(i); } else { i += 1; } }
```
(`fuel` bounds the number of iterations; `l.length - i` suffices, see `vecRemoveLoop_spec`) -/
def vecRemoveLoop {α : Type} (p : α → Bool) : Nat → Nat → List α → List α
  | 0, _, l => l
  | fuel + 1, i, l =>
    match l[i]? with
    | none => l
    | some x => if p x then vecRemoveLoop p fuel i (swapRemove l i) else vecRemoveLoop p fuel (i + 1) l

/-- `MutableDataset::insert` of every `Vec` store: `push`, `Ok(true)` -/
def vecInsert (d : List Quad) (q : Quad) : List Quad × Bool := (d ++ [q], true)

/-- `Vec<Spog<T>>::remove` / `Vec<[T;3]>::remove`: every occurrence goes, the answer is always `Ok(true)` -/
def vecRemoveAll (d : List Quad) (q : Quad) : List Quad × Bool :=
  (vecRemoveLoop (fun x => quadEq x q) d.length 0 d, true)

/-- `Vec<Gspo<T>>::remove`: `position(..)` then `swap_remove`; `Ok(false)` when absent -/
def vecRemoveFirst (d : List Quad) (q : Quad) : List Quad × Bool :=
  match d.findIdx? (fun x => quadEq x q) with
  | none => (d, false)
  | some i => (swapRemove d i, true)

/-- which `Vec` flavour: `true` = remove every occurrence (`Vec<Spog>`, `Vec<[T;3]>`), `false` =
remove the first one (`Vec<Gspo>`) -/
def vecRemove (all : Bool) (d : List Quad) (q : Quad) : List Quad × Bool :=
  if all then vecRemoveAll d q else vecRemoveFirst d q

/-- default `insert_all` / `remove_all` over a `Vec` store -/
def vecInsertAll (d : List Quad) : List Quad → Nat → List Quad × Nat
  | [], c => (d, c)
  | q :: qs, c => let (d', b) := vecInsert d q; vecInsertAll d' qs (if b then c + 1 else c)

def vecRemoveAllOf (all : Bool) (d : List Quad) : List Quad → Nat → List Quad × Nat
  | [], c => (d, c)
  | q :: qs, c => let (d', b) := vecRemove all d q; vecRemoveAllOf all d' qs (if b then c + 1 else c)

/-- default `remove_matching`: collect the matches, then `remove_all` -/
def vecRemoveMatching (all : Bool) (n : Nat) (d : List Quad) (p : Pat) : List Quad × Nat :=
  vecRemoveAllOf all d (d.filter (quadMatched n p)) 0

/-- default `retain_matching`: collect the non-matching quads, then `remove_all` -/
def vecRetainMatching (all : Bool) (n : Nat) (d : List Quad) (p : Pat) : List Quad :=
  (vecRemoveAllOf all d (d.filter (fun q => !quadMatched n p q)) 0).1

/-! ### enumerations (default methods of `Dataset` / `Graph`) as images of the quad list -/

/-- the terms of a quad in the order `subjects … variables` visit them -/
def comps (n : Nat) (q : Quad) : List Term := if n = 4 then Store.spog q else [q.s, q.p, q.o]

/-- the nine enumerating default methods: `subjects` `predicates` `objects` `graph_names` `iris`
`blank_nodes` `literals` `variables` `quoted_triples` -/
inductive EnumKind | subjects | predicates | objects | graphs | iris | bnodes | literals | vars | qtriples
  deriving Repr, DecidableEq, Inhabited

def enumTerms (n : Nat) (k : EnumKind) (qs : List Quad) : List Term :=
  match k with
  | .subjects => qs.map (·.s)
  | .predicates => qs.map (·.p)
  | .objects => qs.map (·.o)
  | .graphs => qs.filterMap (·.g)
  | .iris => ((qs.flatMap (comps n)).flatMap atoms).filter (fun t => t.kind == .iri)
  | .bnodes => ((qs.flatMap (comps n)).flatMap atoms).filter (fun t => t.kind == .bnode)
  | .literals => ((qs.flatMap (comps n)).flatMap atoms).filter (fun t => t.kind == .literal)
  | .vars => ((qs.flatMap (comps n)).flatMap atoms).filter (fun t => t.kind == .variable)
  | .qtriples => ((qs.flatMap (comps n)).flatMap constituents).filter (fun t => t.kind == .triple)

def EnumKind.ofString : String → Option EnumKind
  | "subjects" => some .subjects | "predicates" => some .predicates | "objects" => some .objects
  | "graphs" => some .graphs | "iris" => some .iris | "bnodes" => some .bnodes
  | "literals" => some .literals | "vars" => some .vars | "qtriples" => some .qtriples
  | _ => none

/-- protocol entry point: enumeration by name -/
def enumOf (n : Nat) (which : String) (qs : List Quad) : Option (List Term) :=
  (EnumKind.ofString which).map (fun k => enumTerms n k qs)

/-! ### `from_quad_source` / `from_triple_source` of the in-memory stores -/

/-- `let mut d = Self::new(); quads.try_for_each_quad(|q| d.insert_quad(q).map(|_| ()))?; Ok(d)`:
`none` = `TermIndexFullError` (the half-built store is dropped) -/
def collect (shape : Shape) (max : Nat) (qs : List Quad) : Option St :=
  match Store.insertAll (St.new shape max) qs 0 with
  | (s, some _) => some s
  | (_, none) => none

/-! ### bulk pre-load used by the index-full histories -/

/-- canonical row of the quad `(s, p, o, default graph)` given the indexes of its terms -/
def freshRow (n max is ip io : Nat) : Row := if n = 4 then [max, is, ip, io] else [is, ip, io]

/-- The state after inserting, one by one, the quads `(sT, pT, t, default graph)` for `t ∈ ts`, when
`sT`/`pT` are already interned at `is`/`ip` and the `ts` are terms the store has never seen: written
down directly (the new terms appended to the term index, one new row consed onto every index) so that
a 65 000-quad pre-load is cheap. `bulkFresh_eq_insertAll` (SophiaProofs) proves that this IS the state
`insert_all` produces, so histories that start with a pre-load are covered by the refinement theorems. -/
def bulkFresh (s : St) (is ip : Nat) (ts : List Term) : St :=
  { s with
    terms := s.terms ++ ts,
    idx := (s.idx.zip s.shape.perms).map (fun (ix, perm) =>
      ((List.range ts.length).map (fun j =>
        layout perm (freshRow s.shape.n s.max is ip (s.terms.length + j)))).reverse ++ ix) }

/-- the objects of the pre-load: literals `"<i>"^^<x:fill>` (pairwise different: `Nat.repr` is injective) -/
def fillTerm (i : Nat) : Term := .lit (toString i).toList "x:fill".toList

def fillTerms (off m : Nat) : List Term := (List.range m).map (fun j => fillTerm (off + j))

def objQuads (sT pT : Term) (ts : List Term) : List Quad := ts.map (fun t => (⟨sT, pT, t, none⟩ : Quad))

/-- `insert_all` of the quads `(sT, pT, t, default graph)`, `t ∈ ts`: through the fast path
`bulkFresh` when its preconditions are seen to hold (both fixed terms interned, every object unknown
to the index, enough room), through `Store.insertAll` itself otherwise. `bulkInsert_eq_insertAll`
(SophiaProofs) proves both paths equal for pairwise different objects. -/
def bulkInsert (s : St) (sT pT : Term) (ts : List Term) : St × Option Nat :=
  match getIndex s.terms sT, getIndex s.terms pT with
  | some is, some ip =>
    if ts.all (fun t => (getIndex s.terms t).isNone) && decide (s.terms.length + ts.length ≤ s.max) then
      (bulkFresh s is ip ts, some ts.length)
    else Store.insertAll s (objQuads sT pT ts) 0
  | _, _ => Store.insertAll s (objQuads sT pT ts) 0

/-- `<usize as Index>::MAX` on the 64-bit targets the harness runs on (the extractor checks that
`impl Index for usize` still says `MAX = usize::MAX`) -/
def maxUsize : Nat := 18446744073709551615

end SophiaModel.StdStore
