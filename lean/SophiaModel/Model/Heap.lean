/-
Ownership model of the in-memory stores (property C10): who owns which heap buffer, who merely
points into it, and what `clone` / `drop` / moves do to that.

Anchors: `inmem/src/index.rs` (`SimpleTermIndex`, the `transmute` in `ensure_index`, its `Clone`),
`inmem/src/{graph,dataset}.rs` (stores embedding the index; their `Clone` is derived and goes
through the index's), `api/src/term/_simple.rs` (`SimpleTerm`, `from_term`, `from_term_ref` =
`as_simple`, `ensure_owned`), `mownstr` (`MownStr` = pointer + length + ownership bit).

* `Heap`: allocation ids are NEVER reused (a real allocator may hand a released address out again;
  a pointer into released memory is dangling all the same), released cells keep their bytes but
  are not `live`; `ub` is sticky and is raised by every access the language forbids: reading
  through a pointer into a released/unknown allocation, releasing twice.
* `StrRef` = `MownStr`: `owned` ⇒ the value owns allocation `a` (released when the value is
  dropped); otherwise it only points into `a`.  A string of length 0 touches no memory.
* `TermRef` = `SimpleTerm<'static>`.
* a caller's term enters a store through `SimpleTerm::from_term`, string by string through `ensure_owned`
  (`feedStr`): BOTH branches of `ensure_owned` are run by `World.step`, selected by `World.own` (op `via`).
* table growth / rehash of the `HashMap`, growth of the `Vec`, moving a store (by value, into a
  `Box`, `mem::swap`, `mem::take`) move the *structs* (`MownStr` = pointer + length), never the
  string buffers they point to: they are the identity on `Heap` (ops `grow`, `box`, `mv`, `swap`, `take`).
-/
import SophiaModel.Model.Store

namespace SophiaModel.Heap
open SophiaModel SophiaModel.Term SophiaModel.Store

abbrev AllocId := Nat

structure Alloc where
  live : Bool
  bytes : Str
  deriving Repr, DecidableEq, Inhabited

structure Heap where
  cells : Array Alloc := #[]
  /-- undefined behaviour has happened -/
  ub : Bool := false
  deriving Repr, DecidableEq, Inhabited

/-- what the model assumes about the crate `mownstr` (each item is recognised in its source on every run:
`Gen.mownStr`, tools/extractors/c10.py; `mownstr_as_modelled` in Props/C10.lean) -/
structure MownStrShape where
  /-- pointer + length: the bytes live out of line, moving the struct never moves them (`grow`, `mv`, `swap` …) -/
  outOfLine : Bool
  /-- `Clone` of a borrowed `MownStr` copies the pointer, of an owned one copies the bytes (`cloneRef`) -/
  cloneBorrowedCopiesPointer : Bool
  /-- `Drop` releases the buffer iff the string owns it (`TermRef.ownedIds`, `Heap.free`) -/
  dropReleasesOwnedOnly : Bool
  /-- `From<Box<str>>` / `From<String>` take the buffer over, no copy (`Heap.alloc` makes an owned string) -/
  fromBoxTakesTheBuffer : Bool
  /-- `borrowed()` is a pointer copy without the ownership bit (`borrowOf`) -/
  borrowedIsPointerCopy : Bool
  deriving Repr, DecidableEq, Inhabited

/-- the reading of `mownstr` the functions below implement -/
def MownStrShape.modelled : MownStrShape := ⟨true, true, true, true, true⟩

/-- `MownStr` -/
structure StrRef where
  owned : Bool
  a : AllocId
  len : Nat
  deriving Repr, DecidableEq, Inhabited

/-- `Box<str>::from(s)` / `String::into_boxed_str` + `MownStr::from(Box<str>)`: a fresh owned buffer -/
def Heap.alloc (h : Heap) (s : Str) : Heap × StrRef :=
  ({ h with cells := h.cells.push ⟨true, s⟩ }, ⟨true, h.cells.size, s.length⟩)

/-- `Drop for MownStr` of an owned string: releases the buffer (twice = UB) -/
def Heap.free (h : Heap) (a : AllocId) : Heap :=
  match h.cells[a]? with
  | some al =>
    if al.live then { h with cells := h.cells.modify a (fun c => { c with live := false }) }
    else { h with ub := true }
  | none => { h with ub := true }

def Heap.freeAll (h : Heap) (ids : List AllocId) : Heap := ids.foldl Heap.free h

/-- what dereferencing yields; `none` = the pointer does not point into a live allocation -/
def Heap.deref (h : Heap) (r : StrRef) : Option Str :=
  if r.len = 0 then some []
  else
    match h.cells[r.a]? with
    | some al => if al.live then some (al.bytes.take r.len) else none
    | none => none

/-- `Deref for MownStr` as an effect: reading through a dangling pointer is UB -/
def Heap.read (h : Heap) (r : StrRef) : Heap × Str :=
  match h.deref r with
  | some s => (h, s)
  | none => ({ h with ub := true }, [])

/-- the atomic variants of `SimpleTerm`: `Iri`, `BlankNode`, `Variable` hold one `MownStr`,
`LiteralDatatype` (lexical form, datatype) and `LiteralLanguage` (lexical form, tag) two -/
inductive AKind where
  | iri | bnode | var | lit | lang
  deriving Repr, DecidableEq, Inhabited

/-- `SimpleTerm<'static>`: an atom = its variant + its `MownStr` fields in declaration order;
`Triple(Box<[Self; 3]>)` -/
inductive TermRef where
  | atom (k : AKind) (ss : List StrRef)
  | triple (s p o : TermRef)
  deriving Repr, DecidableEq, Inhabited

namespace TermRef

/-- every string field, left to right, recursively -/
def refs : TermRef → List StrRef
  | .atom _ ss => ss
  | .triple s p o => s.refs ++ p.refs ++ o.refs

/-- the allocations this value owns (released when it is dropped) -/
def ownedIds (t : TermRef) : List AllocId := (t.refs.filter (·.owned)).map (·.a)

def sameShape : TermRef → TermRef → Bool
  | .atom k ss, .atom k' ss' => k == k' && ss.length == ss'.length
  | .triple a b c, .triple x y z => sameShape a x && sameShape b y && sameShape c z
  | _, _ => false

end TermRef

/-- the term an atom's variant and strings denote -/
def mkTerm : AKind → List Str → Option Term
  | .iri, [s] => some (.iri s)
  | .bnode, [s] => some (.bnode s)
  | .var, [s] => some (.var s)
  | .lit, [l, d] => some (.lit l d)
  | .lang, [l, t] => some (.lang l t)
  | _, _ => none

def Heap.derefs (h : Heap) : List StrRef → Option (List Str)
  | [] => some []
  | r :: rs => (h.deref r).bind fun s => (h.derefs rs).map fun ss => s :: ss

/-- pure observation of a term's content (`none` = some string dangles) -/
def readTerm? (h : Heap) : TermRef → Option Term
  | .atom k ss => (h.derefs ss).bind (mkTerm k)
  | .triple s p o =>
    (readTerm? h s).bind fun x => (readTerm? h p).bind fun y => (readTerm? h o).map fun z => .triple x y z

/-- the content of a key as the `HashMap` sees it when hashing / comparing (keys own their
buffers, which are live as long as the map is) -/
def keyTerm (h : Heap) (k : TermRef) : Term := (readTerm? h k).getD (.iri [])

def Heap.reads (h : Heap) : List StrRef → Heap × List Str
  | [] => (h, [])
  | r :: rs =>
    let (h1, s) := h.read r
    let (h2, ss) := h1.reads rs
    (h2, s :: ss)

/-- reading a term through its accessors, as an effect -/
def readTermU (h : Heap) : TermRef → Heap × Term
  | .atom k ss => let (h1, xs) := h.reads ss; (h1, (mkTerm k xs).getD (.iri []))
  | .triple s p o =>
    let (h, x) := readTermU h s
    let (h, y) := readTermU h p
    let (h, z) := readTermU h o
    (h, .triple x y z)

/-! ### `api/src/term/_simple.rs` -/

def borrowOf (r : StrRef) : StrRef := { r with owned := false }

/-- `ensure_owned(m)`, the second `transmute` of the anchored files.
`m.is_owned()`: `m.clone()` (a fresh buffer with a copy of the bytes) is transmuted to `'static`,
then the argument `m` is dropped (its own buffer released);
otherwise `m.to_string().into()` (a fresh buffer as well). -/
def ensureOwned (h : Heap) (m : StrRef) : Heap × StrRef :=
  let (h1, s) := h.read m
  let (h2, r) := h1.alloc s
  if m.owned then (h2.free m.a, r) else (h2, r)

/-- one string of the CALLER's term on its way into a `SimpleTerm<'static>` (`FromTerm::from_term`): the
accessor (`iri()`, `lexical_form()`, …) hands out a `MownStr` `m` whose bytes live in a buffer `b`, and
`ensure_owned(m)` makes the `'static` string.  `own = true` (terms backed by `i32`, `f64`, `String` …; the
harness' `via own`): `m` OWNS `b`, `ensure_owned` takes its `is_owned` branch — clone, transmute, and the drop
of `m` releases `b`.  `own = false` (a `SimpleTerm`, `IriRef<&str>` …; `via ref`): `m` BORROWS `b` from the
caller's term, `ensure_owned` copies, and `b` is released when the caller's term goes (here: at once). -/
def feedStr (own : Bool) (h : Heap) (s : Str) : Heap × StrRef :=
  let (h1, m) := h.alloc s
  if own then ensureOwned h1 m
  else
    let (h2, r) := ensureOwned h1 (borrowOf m)
    (h2.free m.a, r)

def feedStrs (own : Bool) (h : Heap) : List Str → Heap × List StrRef
  | [] => (h, [])
  | s :: ss =>
    let (h1, r) := feedStr own h s
    let (h2, rs) := feedStrs own h1 ss
    (h2, r :: rs)

def atomAlloc (own : Bool) (h : Heap) (k : AKind) (ss : List Str) : Heap × TermRef :=
  let (h1, rs) := feedStrs own h ss
  (h1, .atom k rs)

/-- `SimpleTerm::from_term(t)` for a caller's term `t`: every string goes through `ensure_owned`
(`feedStr`; lexical form first, then tag / datatype; `s`, `p`, `o` in order) -/
def allocTerm (own : Bool) (h : Heap) : Term → Heap × TermRef
  | .iri s => atomAlloc own h .iri [s]
  | .bnode s => atomAlloc own h .bnode [s]
  | .var s => atomAlloc own h .var [s]
  | .lit l d => atomAlloc own h .lit [l, d]
  | .lang l t => atomAlloc own h .lang [l, t]
  | .triple s p o =>
    let (h, a) := allocTerm own h s
    let (h, b) := allocTerm own h p
    let (h, c) := allocTerm own h o
    (h, .triple a b c)

/-- `MownStr::clone`: an owned string is copied into a fresh buffer, a borrowed one stays a
pointer to THE SAME buffer -/
def cloneRef (h : Heap) (r : StrRef) : Heap × StrRef :=
  if r.owned then
    let (h1, s) := h.read r
    h1.alloc s
  else (h, r)

def cloneRefs (h : Heap) : List StrRef → Heap × List StrRef
  | [] => (h, [])
  | r :: rs =>
    let (h1, r') := cloneRef h r
    let (h2, rs') := cloneRefs h1 rs
    (h2, r' :: rs')

/-- `#[derive(Clone)]` of `SimpleTerm` (`Box<[Self; 3]>::clone` clones the three components) -/
def cloneTermRef (h : Heap) : TermRef → Heap × TermRef
  | .atom k ss => let (h1, rs) := cloneRefs h ss; (h1, .atom k rs)
  | .triple s p o =>
    let (h, a) := cloneTermRef h s
    let (h, b) := cloneTermRef h p
    let (h, c) := cloneTermRef h o
    (h, .triple a b c)

/-- `ensure_owned` on a borrowed `MownStr`: read it, put the bytes into a fresh buffer -/
def copyRefs (h : Heap) : List StrRef → Heap × List StrRef
  | [] => (h, [])
  | r :: rs =>
    let (h1, s) := h.read r
    let (h2, r') := h1.alloc s
    let (h3, rs') := copyRefs h2 rs
    (h3, r' :: rs')

/-- `SimpleTerm::<'static>::from_term(&t)` for a `&SimpleTerm`: the accessors hand out borrowed
`MownStr`s, `ensure_owned` copies each of them (reading it) into a fresh buffer -/
def copyTerm (h : Heap) : TermRef → Heap × TermRef
  | .atom k ss => let (h1, rs) := copyRefs h ss; (h1, .atom k rs)
  | .triple s p o =>
    let (h, a) := copyTerm h s
    let (h, b) := copyTerm h p
    let (h, c) := copyTerm h o
    (h, .triple a b c)

/-- `k.as_simple()` = `SimpleTerm::from_term_ref(&k)` followed by the `transmute` to `'static`
of `ensure_index`: an atom BORROWS every string from `k`; a quoted triple gets its three
components through `SimpleTerm::<'static>::from_term`, i.e. owned deep copies -/
def asSimple (h : Heap) : TermRef → Heap × TermRef
  | .atom k ss => (h, .atom k (ss.map borrowOf))
  | .triple s p o =>
    let (h, a) := copyTerm h s
    let (h, b) := copyTerm h p
    let (h, c) := copyTerm h o
    (h, .triple a b c)

/-! ### `SimpleTermIndex<I>` (`inmem/src/index.rs`) -/

structure TIndex where
  /-- `HashMap<SimpleTerm<'static>, I>`: the keys own their strings -/
  t2i : List (TermRef × Nat) := []
  /-- `Vec<SimpleTerm<'static>>`: atoms borrow from "their" key -/
  i2t : List TermRef := []
  deriving Repr, DecidableEq, Inhabited

namespace TIndex

def keyIds (ix : TIndex) : List AllocId := ix.t2i.flatMap (·.1.ownedIds)
def entryIds (ix : TIndex) : List AllocId := ix.i2t.flatMap (·.ownedIds)
/-- everything released when the index is dropped (`t2i` first, then `i2t`) -/
def owned (ix : TIndex) : List AllocId := ix.keyIds ++ ix.entryIds

/-- `get_index`: lookup by `Term::eq` on the keys' content -/
def getIndex (h : Heap) (ix : TIndex) (t : Term) : Option Nat :=
  (ix.t2i.find? (fun e => termEq (keyTerm h e.1) t)).map (·.2)

/-- `ensure_index`; `none` = `TermIndexFullError`.  The owned copy `SimpleTerm::from_term(t)` is
made FIRST; it is dropped again when the entry is occupied or the index is full. -/
def ensureIndex (own : Bool) (max : Nat) (h : Heap) (ix : TIndex) (t : Term) : Heap × TIndex × Option Nat :=
  let (h1, k) := allocTerm own h t
  match ix.getIndex h1 t with
  | some i => (h1.freeAll k.ownedIds, ix, some i)
  | none =>
    let i := ix.i2t.length
    if i ≥ max then (h1.freeAll k.ownedIds, ix, none)
    else
      let (h2, t2) := asSimple h1 k
      (h2, { t2i := ix.t2i ++ [(k, i)], i2t := ix.i2t ++ [t2] }, some i)

end TIndex

/-- how `Clone for SimpleTermIndex` is defined in the source (generated: `Gen/CloneKind.lean`) -/
inductive CloneKind where
  /-- `#[derive(Clone)]`: `t2i.clone()` and `i2t.clone()` field by field -/
  | derived
  /-- manual impl: `t2i.clone()`, then `i2t` rebuilt from the NEW keys
  (`t2i.get_key_value(t).expect(..).0.as_simple()` + the `transmute` of `ensure_index`) -/
  | manual
  deriving Repr, DecidableEq, Inhabited

/-- `HashMap::clone`: every key is cloned (its owned strings are copied into fresh buffers) -/
def cloneKeys (h : Heap) : List (TermRef × Nat) → Heap × List (TermRef × Nat)
  | [] => (h, [])
  | (k, i) :: r =>
    let (h1, k') := cloneTermRef h k
    let (h2, r') := cloneKeys h1 r
    (h2, (k', i) :: r')

/-- `Vec::clone` -/
def cloneTerms (h : Heap) : List TermRef → Heap × List TermRef
  | [] => (h, [])
  | t :: r =>
    let (h1, t') := cloneTermRef h t
    let (h2, r') := cloneTerms h1 r
    (h2, t' :: r')

/-- the manual impl's `self.i2t.iter().map(|t| …).collect()`; the flag is `false` when
`expect` panicked (then the list holds what was built so far) -/
def rebuildI2t (ks : List (TermRef × Nat)) : Heap → List TermRef → Heap × List TermRef × Bool
  | h, [] => (h, [], true)
  | h, t :: ts =>
    let (h0, tt) := readTermU h t                 -- hashing/comparing `t` reads the ORIGINAL's entry
    match ks.find? (fun e => termEq (keyTerm h0 e.1) tt) with
    | none => (h0, [], false)
    | some e =>
      let (h1, t2) := asSimple h0 e.1
      let (h2, r, ok) := rebuildI2t ks h1 ts
      (h2, t2 :: r, ok)

/-- `Clone::clone` of the index, as the source defines it; `none` = the manual impl panicked
(unwinding drops the new map and the partial vector) -/
def cloneIndex (ck : CloneKind) (h : Heap) (ix : TIndex) : Heap × Option TIndex :=
  match ck with
  | .derived =>
    let (h1, ks) := cloneKeys h ix.t2i
    let (h2, ts) := cloneTerms h1 ix.i2t
    (h2, some { t2i := ks, i2t := ts })
  | .manual =>
    let (h1, ks) := cloneKeys h ix.t2i
    let (h2, ts, ok) := rebuildI2t ks h1 ix.i2t
    if ok then (h2, some { t2i := ks, i2t := ts })
    else (h2.freeAll (ts.flatMap (·.ownedIds) ++ ks.flatMap (·.1.ownedIds)), none)

/-! ### self-containment (what the hook `verif_audit` reports) -/

/-- every string of `t` that is not owned by `t` itself lies in a buffer owned by the key `k` -/
def insideKey (k t : TermRef) : Bool :=
  t.refs.all (fun r => r.owned || r.len == 0 || k.ownedIds.contains r.a)

def TIndex.keyAt (ix : TIndex) (i : Nat) : Option TermRef := (ix.t2i.find? (·.2 == i)).map (·.1)

/-- per index `i`: (a key is mapped to `i` and has the variant of `i2t[i]`, and all string
pointers of `i2t[i]` lie inside that key's own buffers) -/
def TIndex.auditEntry (ix : TIndex) (i : Nat) : Bool × Bool :=
  match ix.keyAt i, ix.i2t[i]? with
  | some k, some t => (k.sameShape t, k.sameShape t && insideKey k t)
  | _, _ => (false, false)

def TIndex.audit (ix : TIndex) : List (Bool × Bool) := (List.range ix.i2t.length).map ix.auditEntry

/-- `SelfContained`: every borrowed (non-empty) string of every `i2t` entry points into a buffer
owned by a key of the SAME index -/
def TIndex.selfContained (ix : TIndex) : Bool :=
  ix.i2t.all (fun t => t.refs.all (fun r => r.owned || r.len == 0 || ix.keyIds.contains r.a))

/-! ### stores = a term index + sets of rows of indices (`inmem/src/{graph,dataset}.rs`) -/

structure HStore where
  /-- `n = 0`: a bare `SimpleTermIndex` -/
  shape : Shape
  max : Nat
  ix : TIndex := {}
  idx : List (List Row) := []
  /-- the struct currently lives in a `Box` (irrelevant for the buffers) -/
  boxed : Bool := false
  deriving Repr, Inhabited

def HStore.new (shape : Shape) (max : Nat) : HStore :=
  { shape, max, idx := shape.perms.map (fun _ => []) }

/-- `ensure_index` for every term in lookup order (cf. `Store.ensureAll`) -/
def ensureAllH (own : Bool) (max : Nat) (names : List GName) :
    List Nat → Heap → TIndex → List (Nat × Nat) → Heap × TIndex × Option (List (Nat × Nat))
  | [], h, ix, acc => (h, ix, some acc)
  | c :: cs, h, ix, acc =>
    match names.getD c none with
    | none => ensureAllH own max names cs h ix ((c, max) :: acc)
    | some t =>
      match ix.ensureIndex own max h t with
      | (h', ix', none) => (h', ix', none)
      | (h', ix', some i) => ensureAllH own max names cs h' ix' ((c, i) :: acc)

/-- `MutableDataset::insert` / `MutableGraph::insert` (cf. `Store.insert`; the row part is the same) -/
def HStore.insert (own : Bool) (h : Heap) (s : HStore) (q : Quad) : Heap × HStore × Option Bool :=
  let names := quadNames s.shape.n q
  match ensureAllH own s.max names s.shape.lookupOrder h s.ix [] with
  | (h', ix, none) => (h', { s with ix }, none)
  | (h', ix, some a) =>
    let c := rowOfAssoc s.shape.n a
    match s.idx, s.shape.perms with
    | prim :: rest, p0 :: ps =>
      let (prim', changed) := oinsert (layout p0 c) prim
      if changed then
        let rest' := (rest.zip ps).map (fun (ixs, p) => (oinsert (layout p c) ixs).1)
        (h', { s with ix, idx := prim' :: rest' }, some true)
      else (h', { s with ix }, some false)
    | _, _ => (h', { s with ix }, some false)

/-- the C01 view of a store: terms as read through `i2t` -/
def HStore.view (h : Heap) (s : HStore) : St :=
  { shape := s.shape, max := s.max, terms := s.ix.i2t.map (keyTerm h), idx := s.idx }

/-- `get_index` / `get_graph_name_index` for every term in lookup order (cf. `Store.lookupAll`) -/
def lookupAllH (max : Nat) (h : Heap) (ix : TIndex) (names : List GName) :
    List Nat → List (Nat × Nat) → Option (List (Nat × Nat))
  | [], acc => some acc
  | c :: cs, acc =>
    match (match names.getD c none with
      | none => some max
      | some t => ix.getIndex h t) with
    | none => none
    | some i => lookupAllH max h ix names cs ((c, i) :: acc)

/-- `remove`: lookups go through `t2i` (keys); nothing is allocated or released in the index
(cf. `Store.remove`; the row part is the same) -/
def HStore.remove (h : Heap) (s : HStore) (q : Quad) : HStore × Bool :=
  let names := quadNames s.shape.n q
  match lookupAllH s.max h s.ix names s.shape.lookupOrder [] with
  | none => (s, false)
  | some a =>
    let c := rowOfAssoc s.shape.n a
    match s.idx, s.shape.perms with
    | prim :: rest, p0 :: ps =>
      let (prim', changed) := oremove (layout p0 c) prim
      if changed then
        let rest' := (rest.zip ps).map (fun (ixs, p) => (oremove (layout p c) ixs).1)
        ({ s with idx := prim' :: rest' }, true)
      else (s, false)
    | _, _ => (s, false)

/-- indices whose `i2t` entry is read by `quads()` / `triples()` (a bare index: `get_term(i)` for every `i`) -/
def HStore.readIdx (s : HStore) : List Nat :=
  if s.shape.n = 0 then List.range s.ix.i2t.length
  else ((s.idx.getD 0 []).flatMap id).filter (· != s.max)

def HStore.refsRead (s : HStore) : List StrRef :=
  s.readIdx.flatMap (fun i => (s.ix.i2t.getD i (.atom .iri [])).refs)

/-- may the content be read without UB? -/
def HStore.readable (h : Heap) (s : HStore) : Bool := s.refsRead.all (fun r => (h.deref r).isSome)

/-- iterating the store: every string of every yielded term is read -/
def HStore.readAll (h : Heap) (s : HStore) : Heap :=
  if s.readable h then h else { h with ub := true }

/-! ### worlds: any number of named stores over one heap -/

structure World where
  heap : Heap := {}
  stores : List (Nat × HStore) := []
  /-- how the caller's terms reach the stores from now on: through accessors returning owned (`true`) or
  borrowed (`false`) `MownStr`s — which branch of `ensure_owned` every insertion takes (`feedStr`) -/
  own : Bool := false
  deriving Repr, Inhabited

inductive Op where
  | new (a : Nat) (shape : Shape) (max : Nat)
  | ins (a : Nat) (q : Quad)
  | ens (a : Nat) (t : Term)
  | rem (a : Nat) (q : Quad)
  | clone (a b : Nat)          -- `let b = a.clone();`
  | cloneFrom (a b : Nat)      -- `b.clone_from(&a);` = `b = a.clone()`: the old `b` is dropped AFTER the clone is made
  | drop (a : Nat)
  | swap (a b : Nat)           -- `std::mem::swap(&mut a, &mut b)`
  | mv (a b : Nat)             -- `let b = a;`
  | box (a : Nat)              -- `Box::new(a)` / `*a`
  | take (a b : Nat)           -- `let b = std::mem::take(&mut a);`
  | grow (a : Nat)             -- the hash table / the vector reallocate
  | readAll (a : Nat)          -- iterate `quads()` / `triples()` / `get_term(0..len)`
  | via (own : Bool)           -- from now on the caller's terms have accessors returning owned / borrowed strings
  deriving Repr, Inhabited

inductive Res where
  | ok | flag (b : Bool) | idx (i : Nat) | full | panic | bad
  deriving Repr, DecidableEq, Inhabited

namespace World

def get (w : World) (n : Nat) : Option HStore := (w.stores.find? (·.1 == n)).map (·.2)

def set (w : World) (n : Nat) (s : HStore) : World :=
  { w with stores := w.stores.map (fun e => if e.1 == n then (n, s) else e) }

def add (w : World) (n : Nat) (s : HStore) : World := { w with stores := w.stores ++ [(n, s)] }

def del (w : World) (n : Nat) : World := { w with stores := w.stores.filter (·.1 != n) }

/-- `Clone::clone` of a store: the index through `cloneIndex`, the `BTreeSet`s of rows by value -/
def cloneStore (ck : CloneKind) (h : Heap) (s : HStore) : Heap × Option HStore :=
  match cloneIndex ck h s.ix with
  | (h', some ix) => (h', some { s with ix, boxed := false })
  | (h', none) => (h', none)

def step (ck : CloneKind) (w : World) : Op → World × Res
  | .new a shape max =>
    match w.get a with
    | some _ => (w, .bad)
    | none => (w.add a (HStore.new shape max), .ok)
  | .ins a q =>
    match w.get a with
    | some s =>
      if s.shape.n = 0 then (w, .bad)
      else
        match s.insert w.own w.heap q with
        | (h, s', none) => ({ w with heap := h }.set a s', .full)
        | (h, s', some b) => ({ w with heap := h }.set a s', .flag b)
    | none => (w, .bad)
  | .ens a t =>
    match w.get a with
    | some s =>
      match s.ix.ensureIndex w.own s.max w.heap t with
      | (h, ix, none) => ({ w with heap := h }.set a { s with ix }, .full)
      | (h, ix, some i) => ({ w with heap := h }.set a { s with ix }, .idx i)
    | none => (w, .bad)
  | .rem a q =>
    match w.get a with
    | some s =>
      if s.shape.n = 0 then (w, .bad)
      else let (s', b) := s.remove w.heap q; (w.set a s', .flag b)
    | none => (w, .bad)
  | .clone a b =>
    match w.get a, w.get b with
    | some s, none =>
      match cloneStore ck w.heap s with
      | (h, some c) => ({ w with heap := h }.add b c, .ok)
      | (h, none) => ({ w with heap := h }, .panic)
    | _, _ => (w, .bad)
  | .cloneFrom a b =>
    match w.get a, w.get b with
    | some s, some old =>
      if a == b then (w, .bad)
      else
        match cloneStore ck w.heap s with
        | (h, some c) => ({ w with heap := h.freeAll old.ix.owned }.set b c, .ok)
        | (h, none) => ({ w with heap := h }, .panic)
    | _, _ => (w, .bad)
  | .drop a =>
    match w.get a with
    | some s => ({ w with heap := w.heap.freeAll s.ix.owned }.del a, .ok)
    | none => (w, .bad)
  | .swap a b =>
    match w.get a, w.get b with
    | some sa, some sb =>
      if a == b then (w, .ok)
      else ((w.set a sb).set b sa, .ok)
    | _, _ => (w, .bad)
  | .mv a b =>
    match w.get a, w.get b with
    | some s, none => ((w.del a).add b s, .ok)
    | _, _ => (w, .bad)
  | .box a =>
    match w.get a with
    | some s => (w.set a { s with boxed := !s.boxed }, .ok)
    | none => (w, .bad)
  | .take a b =>
    match w.get a, w.get b with
    | some s, none => ((w.set a (HStore.new s.shape s.max)).add b s, .ok)
    | _, _ => (w, .bad)
  | .grow a =>
    match w.get a with
    | some _ => (w, .ok)
    | none => (w, .bad)
  | .readAll a =>
    match w.get a with
    | some s => ({ w with heap := s.readAll w.heap }, .ok)
    | none => (w, .bad)
  | .via own => ({ w with own }, .ok)

def run (ck : CloneKind) (w : World) (ops : List Op) : World := ops.foldl (fun w op => (step ck w op).1) w

end World

/-! ### terms cloned OUT of a store

`TermIndex::get_term`, `Graph::triples`, `Dataset::quads` … lend `<TI::Term as Term>::BorrowTerm<'_>`.
For `SimpleTermIndex` the source declares `type Term = SimpleTerm<'static>`, so what is lent is
`&'_ SimpleTerm<'static>`, and safe code may write `let x: SimpleTerm<'static> = a.get_term(i).clone();`
— `#[derive(Clone)]` of `SimpleTerm`, i.e. `cloneTermRef` on the `i2t` entry: borrowed strings stay
pointers into the keys of `a`, and NOTHING in the type of `x` ties it to `a` any more.
Whether the source has that shape is generated (`Gen.termEscapes`); with the term type of
notes/fixes/C10-indexed-term-lifetime.diff the clone is a `SimpleTerm<'x>` that cannot outlive the
borrow of `a`, i.e. it cannot be kept across any other operation on `a` (`XRes.bounded`). -/

/-- a world plus the `SimpleTerm<'static>` values safe code has cloned out of stores and keeps -/
structure XWorld where
  w : World := {}
  esc : List (Nat × TermRef) := []
  deriving Repr, Inhabited

inductive XOp where
  | base (op : Op)
  /-- `let x = a.get_term(a.get_index(t)?).clone();` resp. the clone of the first term `Term::eq` to
  `t` that `a.triples()` / `a.quads()` yields -/
  | esc (a : Nat) (t : Term) (x : Nat)
  /-- read every string of `x` through its accessors -/
  | readEsc (x : Nat)
  /-- `drop(x)` -/
  | dropEsc (x : Nat)
  /-- `format!("{:?}", a)`: the derived `Debug` walks every key of `t2i` and every entry of `i2t` -/
  | dbg (a : Nat)
  deriving Repr, Inhabited

inductive XRes where
  | res (r : Res)
  /-- the clone is kept, independent of the store as far as the type system knows -/
  | escaped
  /-- the clone cannot outlive the borrow of the store (made, read and dropped within it) -/
  | bounded
  /-- the store does not yield such a term -/
  | absent
  | bad
  deriving Repr, DecidableEq, Inhabited

/-- does some string of `t` point into released memory? -/
def dangles (h : Heap) (t : TermRef) : Bool := (readTerm? h t).isNone

/-- the `i2t` entry a store lends for `t`: its index must be known, and for a graph / dataset some
row must mention it (only then do `triples()` / `quads()` yield it) -/
def HStore.lent (h : Heap) (s : HStore) (t : Term) : Option TermRef :=
  match s.ix.getIndex h t with
  | none => none
  | some i => if s.shape.n = 0 || s.readIdx.contains i then s.ix.i2t[i]? else none

/-- every string of every key and of every entry dereferences -/
def HStore.debuggable (h : Heap) (s : HStore) : Bool :=
  s.ix.t2i.all (fun e => !dangles h e.1) && s.ix.i2t.all (fun t => !dangles h t)

namespace XWorld

def getEsc (xw : XWorld) (x : Nat) : Option TermRef := (xw.esc.find? (·.1 == x)).map (·.2)

/-- `te` = the source declares `type Term = SimpleTerm<'static>` (generated: `Gen.termEscapes`) -/
def step (ck : CloneKind) (te : Bool) (xw : XWorld) : XOp → XWorld × XRes
  | .base op =>
    let (w, r) := xw.w.step ck op
    ({ xw with w }, .res r)
  | .esc a t x =>
    match xw.w.get a, xw.getEsc x with
    | some s, none =>
      match s.lent xw.w.heap t with
      | none => (xw, .absent)
      | some e =>
        if te then
          let (h, e') := cloneTermRef xw.w.heap e
          ({ w := { xw.w with heap := h }, esc := xw.esc ++ [(x, e')] }, .escaped)
        else (xw, .bounded)
    | _, _ => (xw, .bad)
  | .readEsc x =>
    match xw.getEsc x with
    | some e => ({ xw with w := { xw.w with heap := (readTermU xw.w.heap e).1 } }, .res .ok)
    | none => (xw, .bad)
  | .dropEsc x =>
    match xw.getEsc x with
    | some e => ({ w := { xw.w with heap := xw.w.heap.freeAll e.ownedIds }, esc := xw.esc.filter (·.1 != x) }, .res .ok)
    | none => (xw, .bad)
  | .dbg a =>
    match xw.w.get a with
    | some s =>
      if s.debuggable xw.w.heap then (xw, .res .ok)
      else ({ xw with w := { xw.w with heap := { xw.w.heap with ub := true } } }, .res .ok)
    | none => (xw, .bad)

def run (ck : CloneKind) (te : Bool) (xw : XWorld) (ops : List XOp) : XWorld :=
  ops.foldl (fun xw op => (step ck te xw op).1) xw

end XWorld

/-! ### the value-semantics specification: stores are VALUES

What the property demands of clones, stated without any heap: a world of named stores of the value-level
model `SophiaModel.Store` (the one C01's theorems are about), where `clone` COPIES the value, `drop` forgets it,
moves rename it, and an operation on one name never touches another.  `World.vview` reads a world of the
ownership model as such a world; that `World.step` refines `VWorld.step` is `vview_step` (Props/C10.lean). -/

abbrev VWorld := List (Nat × St)

namespace VWorld

def get (v : VWorld) (n : Nat) : Option St := (v.find? (·.1 == n)).map (·.2)
def set (v : VWorld) (n : Nat) (s : St) : VWorld := v.map (fun e => if e.1 == n then (n, s) else e)
def add (v : VWorld) (n : Nat) (s : St) : VWorld := v ++ [(n, s)]
def del (v : VWorld) (n : Nat) : VWorld := v.filter (·.1 != n)

def step (v : VWorld) : Op → VWorld
  | .new a shape max =>
    match v.get a with
    | some _ => v
    | none => v.add a (St.new shape max)
  | .ins a q =>
    match v.get a with
    | some s => if s.shape.n = 0 then v else v.set a (Store.insert s q).1
    | none => v
  | .ens a t =>
    match v.get a with
    | some s =>
      match Store.ensureIndex s.max s.terms t with
      | some (terms, _) => v.set a { s with terms }
      | none => v
    | none => v
  | .rem a q =>
    match v.get a with
    | some s => if s.shape.n = 0 then v else v.set a (Store.remove s q).1
    | none => v
  | .clone a b =>
    match v.get a, v.get b with
    | some s, none => v.add b s
    | _, _ => v
  | .cloneFrom a b =>
    match v.get a, v.get b with
    | some s, some _ => if a == b then v else v.set b s
    | _, _ => v
  | .drop a =>
    match v.get a with
    | some _ => v.del a
    | none => v
  | .swap a b =>
    match v.get a, v.get b with
    | some sa, some sb => if a == b then v else (v.set a sb).set b sa
    | _, _ => v
  | .mv a b =>
    match v.get a, v.get b with
    | some s, none => (v.del a).add b s
    | _, _ => v
  | .take a b =>
    match v.get a, v.get b with
    | some s, none => (v.set a (St.new s.shape s.max)).add b s
    | _, _ => v
  | .box _ | .grow _ | .readAll _ | .via _ => v

end VWorld

/-- a world of the ownership model read as a world of values -/
def World.vview (w : World) : VWorld := w.stores.map (fun e => (e.1, e.2.view w.heap))

end SophiaModel.Heap
