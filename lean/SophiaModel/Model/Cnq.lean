/-
Canonical N-Quads rendering of one term, exactly as `c14n/src/_cnq.rs::nq`.
The escape table comes from `Gen/CnqEscapes.lean` (regenerated from the source by
tools/extractors/c05.py, which also checks the rendering skeleton below textually).
-/
import SophiaModel.Basic.Term
import SophiaModel.Gen.CnqEscapes

namespace SophiaModel.Cnq
open SophiaModel

def xsdString : Str := "http://www.w3.org/2001/XMLSchema#string".toList

/-- uppercase hex digit (`{:X}`) -/
def hexUp (n : Nat) : Char := if n < 10 then Char.ofNat (48 + n) else Char.ofNat (55 + n)

/-- `format!("\\u{:04X}", c as u8)` -/
def uEsc (cp : Nat) : Str :=
  let b := cp % 256
  ['\\', 'u', '0', '0', hexUp (b / 16), hexUp (b % 16)]

/-- first matching fixed arm of the `match c` -/
def fixedArm : List (Nat × List Char) → Nat → Option Str
  | [], _ => none
  | (k, s) :: rest, cp => if k = cp then some s else fixedArm rest cp

/-- one character of a lexical form -/
def escChar (c : Char) : Str :=
  match fixedArm Gen.cnqEscapes c.toNat with
  | some s => s
  | none => if c.toNat ≤ Gen.cnqCtlMax then uEsc c.toNat else [c]

def escape (l : Str) : Str := l.flatMap escChar

/-- `nq` without the trailing space it always pushes last -/
def nqTerm : Term → Str
  | .iri s => '<' :: s ++ ['>']
  | .lit l d =>
    '"' :: escape l ++ ['"'] ++ (if d = xsdString then [] else '^' :: '^' :: '<' :: d ++ ['>'])
  | .lang l t => '"' :: escape l ++ ['"'] ++ '@' :: t
  | .bnode b => '_' :: ':' :: b
  | .triple s p o => '<' :: '<' :: ' ' :: (nqTerm s ++ [' '] ++ (nqTerm p ++ [' ']) ++ (nqTerm o ++ [' '])) ++ ['>', '>']
  | .var v => '?' :: v

/-- `_cnq.rs::nq`: the term followed by one space -/
def nq (t : Term) : Str := nqTerm t ++ [' ']

end SophiaModel.Cnq
