/-
The graph / dataset adapters of `api/src/graph/adapter.rs` (`UnionGraph`, `PartialUnionGraph`,
`DatasetGraph`) and `api/src/dataset/adapter.rs` (`GraphAsDataset`), transcribed method by method
as forwarding to the methods of the wrapped dataset / graph — over ANY implementation `Impl` of
those methods (the indexed stores of `Model/Store.lean`, or the std collections).

A triple is a `Quad` whose graph name is `none` (as in `Model/Store.lean`, where graphs are the
stores with 3 positions).  Which underlying method the four mutating adapter methods call is read
off the source on every run (`Gen/AdapterFlags.lean`, written by tools/extractors/c11.py, which
also checks fail-closed that every other body still has the shape transcribed here).
-/
import SophiaModel.Model.Store
import SophiaModel.Model.StoreProto
import SophiaModel.Gen.AdapterFlags
import SophiaModel.Gen.ViewGlue

namespace SophiaModel.Adapter
open SophiaModel Term Store
open SophiaModel.Gen.AdapterFlags

/-! ### what an adapter can call on the dataset / graph it wraps -/

/-- The methods of `Dataset` + `MutableDataset` (`n = 4`) resp. `Graph` + `MutableGraph` (`n = 3`) of
one implementation with states `σ`. `insert`: `none` = the implementation's own error
(`TermIndexFullError`). -/
structure Impl (σ : Type) where
  n : Nat
  quads : σ → List Quad
  quadsMatching : σ → Pat → List Quad
  contains : σ → Quad → Bool
  insert : σ → Quad → σ × Option Bool
  remove : σ → Quad → σ × Bool
  -- default methods of the Mutable* traits, used by the history driver for direct bulk operations
  insertAll : σ → List Quad → σ × Option Nat
  removeAll : σ → List Quad → σ × Nat
  removeMatching : σ → Pat → σ × Nat
  retainMatching : σ → Pat → σ

/-- the indexed in-memory stores (`sophia_inmem`), one per generated description -/
def storeImpl (d : StoreDesc) : Impl St where
  n := d.n
  quads := Store.quads
  quadsMatching := Store.quadsMatching d.arms
  contains := Store.contains d.arms
  insert := Store.insert
  remove := Store.remove
  insertAll := fun s qs => Store.insertAll s qs 0
  removeAll := fun s qs => Store.removeAll s qs 0
  removeMatching := Store.removeMatching d.arms
  retainMatching := Store.retainMatching

/-- `remove_all` by iterated `remove` on a plain list -/
def listRemoveAll (rem : List Quad → Quad → List Quad × Bool) (d : List Quad) : List Quad → Nat → List Quad × Nat
  | [], c => (d, c)
  | q :: qs, c =>
    let (d', b) := rem d q
    listRemoveAll rem d' qs (if b then c + 1 else c)

def listInsertAll (ins : List Quad → Quad → List Quad × Bool) (d : List Quad) : List Quad → Nat → List Quad × Nat
  | [], c => (d, c)
  | q :: qs, c =>
    let (d', b) := ins d q
    listInsertAll ins d' qs (if b then c + 1 else c)

/-- a std collection of quads / triples: `quads_matching`, `contains` are the trait defaults (filter
of `quads()`); `ins` / `rem` are the collection's own -/
def listImpl (n : Nat) (ins rem : List Quad → Quad → List Quad × Bool) : Impl (List Quad) where
  n := n
  quads := id
  quadsMatching := fun d p => d.filter (quadMatched n p)
  contains := fun d q => !(d.filter (quadMatched n (exactPat n q))).isEmpty
  insert := fun d q => let (d', b) := ins d q; (d', some b)
  remove := rem
  insertAll := fun d qs => let (d', c) := listInsertAll ins d qs 0; (d', some c)
  removeAll := fun d qs => listRemoveAll rem d qs 0
  removeMatching := fun d p => listRemoveAll rem d (d.filter (quadMatched n p)) 0
  retainMatching := fun d p => (listRemoveAll rem d (d.filter (fun q => !quadMatched n p q)) 0).1

/-- `HashSet<Spog<T>>`, `BTreeSet<Spog<T>>`, `HashSet<[T; 3]>`, `BTreeSet<[T; 3]>`: the mathematical set
(given lawful `Eq`/`Hash`/`Ord` of the element type: property C02) -/
def setImpl (n : Nat) : Impl (List Quad) := listImpl n Spec.insert Spec.remove

/-- `Vec<Spog<T>>`, `Vec<[T; 3]>`: `insert` pushes and answers `true`; `remove` drops every matching
element and answers `true` (flags "not significant": not a `SetDataset`) -/
def vecImpl (n : Nat) : Impl (List Quad) :=
  listImpl n (fun d q => (d ++ [q], true)) (fun d q => (d.filter (fun x => !quadEq x q), true))

/-- `Vec<Gspo<T>>` (quads held as `(g, [s, p, o])`): `insert` pushes and answers `true`; `remove` drops
only the FIRST matching element (`position` + `swap_remove`) and answers whether there was one -/
def vecFirstImpl (n : Nat) : Impl (List Quad) :=
  listImpl n (fun d q => (d ++ [q], true))
    (fun d q => if d.any (quadEq · q) then (d.eraseP (quadEq · q), true) else (d, false))

/-! ### the glue the model treats as given, as obligations on generated tables (`Gen/ViewGlue.lean`) -/

/-- `graph(g)`, `union_graph()`, … wrap a `&D`; `graph_mut(g)` a `&mut D`; `as_dataset_mut()` a `&mut G`: the model
treats the forwarding impls of `Dataset` / `Graph` / `MutableDataset` / `MutableGraph` for `&T` and `&mut T` as
the identity.  Justified when every method recorded from the source is `T::<same method>(*self, <its own
parameters, in order>)` (a method that is not overridden falls back on the trait default over the forwarded
primitives). -/
def refForwardOK (t : List Gen.ViewGlue.Forward) : Bool :=
  t.all (fun e => e.method == e.callee && e.sameArgs) &&
  -- the primitives every view goes through are forwarded explicitly, for the four reference kinds
  [("Dataset for &T", "quads"), ("Dataset for &T", "quads_matching"), ("Dataset for &mut T", "quads"),
   ("Dataset for &mut T", "quads_matching"), ("Graph for &T", "triples"), ("Graph for &T", "triples_matching"),
   ("Graph for &mut T", "triples"), ("Graph for &mut T", "triples_matching"),
   ("MutableDataset for &mut T", "insert"), ("MutableDataset for &mut T", "remove"),
   ("MutableGraph for &mut T", "insert"), ("MutableGraph for &mut T", "remove")].all
    (fun (i, m) => t.any (fun e => e.impl == i && e.method == m))

/-- `Adapter.Defaults` (below) transcribes the default bodies of `insert_all`, `remove_all`, `remove_matching`,
`retain_matching` and of the element forms (`insert_triple`, …) of both `Mutable*` traits: all twelve recorded
bodies are still the transcribed text -/
def defaultBulkOK (t : List (String × String × Bool)) : Bool :=
  t.all (fun e => e.2.2) && t.length == 12

/-! ### shared vocabulary -/

/-- `Quad::into_triple`: drop the graph name -/
def intoTriple (q : Quad) : Quad := { q with g := none }

/-- `Triple::into_quad` = `(spo, None)` -/
def intoQuad (t : Quad) : Quad := { t with g := none }

/-- the pattern `quads_matching(sm, pm, om, gm)` of a dataset (canonical order `[g, s, p, o]`) -/
def dpat (gm : GM) (sm pm om : TM) : Pat := ⟨[gm, .gn sm, .gn pm, .gn om]⟩

/-- the pattern `triples_matching(sm, pm, om)` of a graph -/
def gpat (sm pm om : TM) : Pat := ⟨[.gn sm, .gn pm, .gn om]⟩

/-- does the triple pattern match the triple part of `q`? (`Triple::matched_by(sm, pm, om)`) -/
def Spec.tripleMatched (sm pm om : TM) (q : Quad) : Bool := sm.matches q.s && pm.matches q.p && om.matches q.o

/-- `Graph::contains` (trait default): `triples_matching([s], [p], [o]).next().is_some()` -/
def defaultContains (triplesMatching : TM → TM → TM → List Quad) (t : Quad) : Bool :=
  !(triplesMatching (.arr [t.s]) (.arr [t.p]) (.arr [t.o])).isEmpty

/-- result of a mutation through an adapter -/
inductive MutRes where
  | ok (changed : Bool)
  | errInner            -- the wrapped store's own error (`GraphAsDatasetMutationError::Graph(e)` / `D::MutationError`)
  | errOnlyDefaultGraph -- `GraphAsDatasetMutationError::OnlyDefaultGraph`
  deriving Repr, DecidableEq, Inhabited

def MutRes.ofOption : Option Bool → MutRes
  | some b => .ok b
  | none => .errInner

/-- `self.<call>(quad)` on the wrapped store -/
def callMut {σ : Type} (I : Impl σ) (c : Call) (d : σ) (q : Quad) : σ × MutRes :=
  match c with
  | .insert => let (d', r) := I.insert d q; (d', MutRes.ofOption r)
  | .remove => let (d', b) := I.remove d q; (d', .ok b)

/-- result of a bulk mutation (`insert_all`, `remove_all`, `remove_matching`, `retain_matching`) through an
adapter: the count, or the error that ended it -/
inductive BulkRes where
  | ok (n : Nat)
  | errInner
  | errOnlyDefaultGraph
  deriving Repr, DecidableEq, Inhabited

/-! ### the DEFAULT bulk methods of `MutableGraph` / `MutableDataset` (`api/src/graph.rs`, `api/src/dataset.rs`)

No adapter overrides them (checked by the extractor), so on a mutable view they are these loops over the
VIEW's own `insert` / `remove` / `triples` / `triples_matching`. -/
namespace Defaults
variable {σ : Type}

/-- `insert_all`: `self.insert_triple(t.spo())?` for each element, counting the `true`s; the first error ends it -/
def insertAll (ins : σ → Quad → σ × MutRes) : σ → List Quad → Nat → σ × BulkRes
  | s, [], c => (s, .ok c)
  | s, q :: qs, c =>
    match ins s q with
    | (s', .ok b) => insertAll ins s' qs (if b then c + 1 else c)
    | (s', .errInner) => (s', .errInner)
    | (s', .errOnlyDefaultGraph) => (s', .errOnlyDefaultGraph)

/-- `remove_all`: `self.remove_triple(t.spo())?` for each element, counting the `true`s -/
def removeAll (rem : σ → Quad → σ × MutRes) : σ → List Quad → Nat → σ × BulkRes
  | s, [], c => (s, .ok c)
  | s, q :: qs, c =>
    match rem s q with
    | (s', .ok b) => removeAll rem s' qs (if b then c + 1 else c)
    | (s', .errInner) => (s', .errInner)
    | (s', .errOnlyDefaultGraph) => (s', .errOnlyDefaultGraph)

/-- `remove_matching`: collect `self.triples_matching(ms, mp, mo)` first, then `remove_all` -/
def removeMatching (rem : σ → Quad → σ × MutRes) (s : σ) (matching : List Quad) : σ × BulkRes :=
  removeAll rem s matching 0

/-- `retain_matching`: collect the elements of `self.triples()` NOT `matched_by(ms, mp, mo)`, then `remove_all` -/
def retainMatching (rem : σ → Quad → σ × MutRes) (s : σ) (all : List Quad) (keep : Quad → Bool) : σ × BulkRes :=
  removeAll rem s (all.filter (fun t => !keep t)) 0
end Defaults

/-! ### `UnionGraph<T: Dataset>(T)` -/
namespace UnionGraph
variable {σ : Type} (I : Impl σ)

/-- `self.0.quads().map(|r| r.map(Quad::into_triple))` -/
def triples (d : σ) : List Quad := (I.quads d).map intoTriple

/-- `self.0.quads_matching(sm, pm, om, Any).map(|r| r.map(Quad::into_triple))` -/
def triplesMatching (d : σ) (sm pm om : TM) : List Quad :=
  (I.quadsMatching d (dpat .any sm pm om)).map intoTriple

/-- not overridden: the trait default -/
def contains (d : σ) (t : Quad) : Bool := defaultContains (triplesMatching I d) t

/-- `subjects`, `predicates`, `objects` are `self.0.<same>()` (the dataset's: the image of `quads()`);
`iris`, `blank_nodes`, `literals`, `quoted_triples`, `variables` are — when overridden
(`unionGraphForwardsAtoms`) — also `self.0.<same>()`, i.e. the DATASET's enumeration over `iter_spog`
(graph names included); otherwise the `Graph` defaults over `triples()` -/
def enumerate (d : σ) (which : String) : Option (List Term) :=
  if which == "subjects" || which == "predicates" || which == "objects" || unionGraphForwardsAtoms then
    (if which == "graphs" then none else StoreProto.enumOf 4 which (I.quads d))
  else StoreProto.enumOf 3 which (triples I d)
end UnionGraph

/-! ### `PartialUnionGraph<D: Dataset, M: GraphNameMatcher> { d, m }` -/
namespace PartialUnionGraph
variable {σ : Type} (I : Impl σ)

/-- `self.d.quads_matching(Any, Any, Any, self.m).map(…into_triple)` -/
def triples (d : σ) (m : GM) : List Quad := (I.quadsMatching d (dpat m .any .any .any)).map intoTriple

/-- `self.d.quads_matching(sm, pm, om, self.m).map(…into_triple)` -/
def triplesMatching (d : σ) (m : GM) (sm pm om : TM) : List Quad :=
  (I.quadsMatching d (dpat m sm pm om)).map intoTriple

def contains (d : σ) (m : GM) (t : Quad) : Bool := defaultContains (triplesMatching I d m) t

/-- nothing overridden: the `Graph` defaults over `triples()` -/
def enumerate (d : σ) (m : GM) (which : String) : Option (List Term) := StoreProto.enumOf 3 which (triples I d m)
end PartialUnionGraph

/-! ### `DatasetGraph<D: Dataset, G: Term> { d, g }` — `Dataset::graph`, `Dataset::graph_mut` -/
namespace DatasetGraph
variable {σ : Type} (I : Impl σ)

/-- `self.d.quads_matching(Any, Any, Any, [self.g()]).map(…into_triple)`; `[g]` is a 1-array, so its
`constant()` is `Some(g)` -/
def triples (d : σ) (g : GName) : List Quad := (I.quadsMatching d (dpat (.arr [g]) .any .any .any)).map intoTriple

/-- `self.d.quads_matching(sm, pm, om, [self.g()]).map(…into_triple)` -/
def triplesMatching (d : σ) (g : GName) (sm pm om : TM) : List Quad :=
  (I.quadsMatching d (dpat (.arr [g]) sm pm om)).map intoTriple

def contains (d : σ) (g : GName) (t : Quad) : Bool := defaultContains (triplesMatching I d g) t

def enumerate (d : σ) (g : GName) (which : String) : Option (List Term) := StoreProto.enumOf 3 which (triples I d g)

/-- `MutableGraph::insert`: `let (g, d) = self.gd(); d.<datasetGraphInsertCalls>(s, p, o, g)` -/
def insert (d : σ) (g : GName) (t : Quad) : σ × MutRes :=
  callMut I datasetGraphInsertCalls d ⟨t.s, t.p, t.o, g⟩

/-- `MutableGraph::remove`: `let (g, d) = self.gd(); d.<datasetGraphRemoveCalls>(s, p, o, g)` -/
def remove (d : σ) (g : GName) (t : Quad) : σ × MutRes :=
  callMut I datasetGraphRemoveCalls d ⟨t.s, t.p, t.o, g⟩

/-- `MutableGraph::insert_all` / `remove_all` / `remove_matching` / `retain_matching` are NOT overridden: the
trait defaults over this view's own methods -/
def insertAll (d : σ) (g : GName) (ts : List Quad) : σ × BulkRes :=
  Defaults.insertAll (fun s t => insert I s g t) d ts 0

def removeAll (d : σ) (g : GName) (ts : List Quad) : σ × BulkRes :=
  Defaults.removeAll (fun s t => remove I s g t) d ts 0

def removeMatching (d : σ) (g : GName) (sm pm om : TM) : σ × BulkRes :=
  Defaults.removeMatching (fun s t => remove I s g t) d (triplesMatching I d g sm pm om)

def retainMatching (d : σ) (g : GName) (sm pm om : TM) : σ × BulkRes :=
  Defaults.retainMatching (fun s t => remove I s g t) d (triples I d g) (Spec.tripleMatched sm pm om)
end DatasetGraph

/-! ### `GraphAsDataset<T: Graph>(T)` — `Graph::as_dataset`, `as_dataset_mut`, `into_dataset` -/
namespace GraphAsDataset
variable {σ : Type} (I : Impl σ)

/-- `self.0.triples().map(|r| r.map(Triple::into_quad))` -/
def quads (g : σ) : List Quad := (I.quads g).map intoQuad

/-- `if gm.matches(None) { self.0.triples_matching(sm, pm, om).map(…into_quad) } else { empty() }` -/
def quadsMatching (g : σ) (sm pm om : TM) (gm : GM) : List Quad :=
  if gm.matches none then (I.quadsMatching g (gpat sm pm om)).map intoQuad else []

/-- `if g.is_none() { self.0.contains(s, p, o) } else { Ok(false) }` -/
def contains (g : σ) (q : Quad) : Bool :=
  if q.g.isNone then I.contains g ⟨q.s, q.p, q.o, none⟩ else false

/-- `graph_names` is `std::iter::empty()`; every other enumeration is `self.0.<same>()` -/
def enumerate (g : σ) (which : String) : Option (List Term) :=
  if which == "graphs" then some [] else StoreProto.enumOf 3 which (I.quads g)

/-- `MutableDataset::insert`:
`if g.is_none() { self.0.<graphAsDatasetInsertCalls>(s, p, o).map_err(Graph) } else { Err(OnlyDefaultGraph) }` -/
def insert (g : σ) (q : Quad) : σ × MutRes :=
  if q.g.isNone then callMut I graphAsDatasetInsertCalls g ⟨q.s, q.p, q.o, none⟩
  else (g, .errOnlyDefaultGraph)

/-- `MutableDataset::remove`:
`if g.is_none() { self.0.<graphAsDatasetRemoveCalls>(s, p, o).map_err(Graph) } else { Ok(false) }` -/
def remove (g : σ) (q : Quad) : σ × MutRes :=
  if q.g.isNone then callMut I graphAsDatasetRemoveCalls g ⟨q.s, q.p, q.o, none⟩
  else (g, .ok false)

/-- `MutableDataset::insert_all` / `remove_all` are NOT overridden: the trait defaults over this view's own
`insert` / `remove` (`remove_matching` / `retain_matching` can not be called on a `GraphAsDataset`: its
`MutationError` is not `From<Error>`) -/
def insertAll (g : σ) (qs : List Quad) : σ × BulkRes := Defaults.insertAll (insert I) g qs 0

def removeAll (g : σ) (qs : List Quad) : σ × BulkRes := Defaults.removeAll (remove I) g qs 0
end GraphAsDataset

/-! ### what the property demands (independent of the adapter code): plain list operations -/
namespace Spec

/-- the union of all graphs: the image of the quads (a triple held in two graphs shows twice) -/
def union (qs : List Quad) : List Quad := qs.map intoTriple

/-- the union of the graphs whose name the selector matches -/
def partialUnion (m : GM) (qs : List Quad) : List Quad := (qs.filter (fun q => m.matches q.g)).map intoTriple

/-- one graph (empty when no quad carries that name) -/
def graph (g : GName) (qs : List Quad) : List Quad := (qs.filter (fun q => gnameEq g q.g)).map intoTriple

/-- a graph as a dataset: its triples, all in the default graph -/
def asDataset (ts : List Quad) : List Quad := ts.map intoQuad

def tripleEq (a b : Quad) : Bool := termEq a.s b.s && termEq a.p b.p && termEq a.o b.o

end Spec

end SophiaModel.Adapter
