/-
SHA-256 and SHA-384 (FIPS 180-4) over byte arrays, for *execution only*: the RDFC-1.0 models are
parameterised by an abstract hex-digest function `H : List Char → List Char`; the drivers
instantiate it with `sha256Hex` / `sha384Hex`.  No theorem depends on these definitions except the
`native_decide` witness of C06.  Validated (a) below against the FIPS test vectors and (b) on every
run against the `sha2` crate (requests `h …` and the `dg=` field of the C05/C06 protocol).
Constants are the fractional parts of the cube / square roots of the first primes (regenerated
arithmetically, see the asserts in the property's notes).
-/
namespace SophiaModel.Sha2

def k256 : Array UInt32 := #[
  0x428a2f98, 0x71374491, 0xb5c0fbcf, 0xe9b5dba5, 0x3956c25b, 0x59f111f1, 0x923f82a4, 0xab1c5ed5,
  0xd807aa98, 0x12835b01, 0x243185be, 0x550c7dc3, 0x72be5d74, 0x80deb1fe, 0x9bdc06a7, 0xc19bf174,
  0xe49b69c1, 0xefbe4786, 0x0fc19dc6, 0x240ca1cc, 0x2de92c6f, 0x4a7484aa, 0x5cb0a9dc, 0x76f988da,
  0x983e5152, 0xa831c66d, 0xb00327c8, 0xbf597fc7, 0xc6e00bf3, 0xd5a79147, 0x06ca6351, 0x14292967,
  0x27b70a85, 0x2e1b2138, 0x4d2c6dfc, 0x53380d13, 0x650a7354, 0x766a0abb, 0x81c2c92e, 0x92722c85,
  0xa2bfe8a1, 0xa81a664b, 0xc24b8b70, 0xc76c51a3, 0xd192e819, 0xd6990624, 0xf40e3585, 0x106aa070,
  0x19a4c116, 0x1e376c08, 0x2748774c, 0x34b0bcb5, 0x391c0cb3, 0x4ed8aa4a, 0x5b9cca4f, 0x682e6ff3,
  0x748f82ee, 0x78a5636f, 0x84c87814, 0x8cc70208, 0x90befffa, 0xa4506ceb, 0xbef9a3f7, 0xc67178f2]

def iv256 : Array UInt32 := #[
  0x6a09e667, 0xbb67ae85, 0x3c6ef372, 0xa54ff53a, 0x510e527f, 0x9b05688c, 0x1f83d9ab, 0x5be0cd19]

def k512 : Array UInt64 := #[
  0x428a2f98d728ae22, 0x7137449123ef65cd, 0xb5c0fbcfec4d3b2f, 0xe9b5dba58189dbbc,
  0x3956c25bf348b538, 0x59f111f1b605d019, 0x923f82a4af194f9b, 0xab1c5ed5da6d8118,
  0xd807aa98a3030242, 0x12835b0145706fbe, 0x243185be4ee4b28c, 0x550c7dc3d5ffb4e2,
  0x72be5d74f27b896f, 0x80deb1fe3b1696b1, 0x9bdc06a725c71235, 0xc19bf174cf692694,
  0xe49b69c19ef14ad2, 0xefbe4786384f25e3, 0x0fc19dc68b8cd5b5, 0x240ca1cc77ac9c65,
  0x2de92c6f592b0275, 0x4a7484aa6ea6e483, 0x5cb0a9dcbd41fbd4, 0x76f988da831153b5,
  0x983e5152ee66dfab, 0xa831c66d2db43210, 0xb00327c898fb213f, 0xbf597fc7beef0ee4,
  0xc6e00bf33da88fc2, 0xd5a79147930aa725, 0x06ca6351e003826f, 0x142929670a0e6e70,
  0x27b70a8546d22ffc, 0x2e1b21385c26c926, 0x4d2c6dfc5ac42aed, 0x53380d139d95b3df,
  0x650a73548baf63de, 0x766a0abb3c77b2a8, 0x81c2c92e47edaee6, 0x92722c851482353b,
  0xa2bfe8a14cf10364, 0xa81a664bbc423001, 0xc24b8b70d0f89791, 0xc76c51a30654be30,
  0xd192e819d6ef5218, 0xd69906245565a910, 0xf40e35855771202a, 0x106aa07032bbd1b8,
  0x19a4c116b8d2d0c8, 0x1e376c085141ab53, 0x2748774cdf8eeb99, 0x34b0bcb5e19b48a8,
  0x391c0cb3c5c95a63, 0x4ed8aa4ae3418acb, 0x5b9cca4f7763e373, 0x682e6ff3d6b2b8a3,
  0x748f82ee5defb2fc, 0x78a5636f43172f60, 0x84c87814a1f0ab72, 0x8cc702081a6439ec,
  0x90befffa23631e28, 0xa4506cebde82bde9, 0xbef9a3f7b2c67915, 0xc67178f2e372532b,
  0xca273eceea26619c, 0xd186b8c721c0c207, 0xeada7dd6cde0eb1e, 0xf57d4f7fee6ed178,
  0x06f067aa72176fba, 0x0a637dc5a2c898a6, 0x113f9804bef90dae, 0x1b710b35131c471b,
  0x28db77f523047d84, 0x32caab7b40c72493, 0x3c9ebe0a15c9bebc, 0x431d67c49c100d4c,
  0x4cc5d4becb3e42b6, 0x597f299cfc657e2a, 0x5fcb6fab3ad6faec, 0x6c44198c4a475817]

def iv384 : Array UInt64 := #[
  0xcbbb9d5dc1059ed8, 0x629a292a367cd507, 0x9159015a3070dd17, 0x152fecd8f70e5939,
  0x67332667ffc00b31, 0x8eb44a8768581511, 0xdb0c2e0d64f98fa7, 0x47b5481dbefa4fa4]


@[inline] def rotr32 (x : UInt32) (n : UInt32) : UInt32 := (x >>> n) ||| (x <<< (32 - n))
@[inline] def rotr64 (x : UInt64) (n : UInt64) : UInt64 := (x >>> n) ||| (x <<< (64 - n))

/-- message ‖ 0x80 ‖ 0* ‖ length in bits (big endian, `lenBytes` bytes), total a multiple of `block` -/
def pad (msg : ByteArray) (block lenBytes : Nat) : ByteArray := Id.run do
  let n := msg.size
  let mut b := msg.push 0x80
  let r := (n + 1 + lenBytes) % block
  let z := if r == 0 then 0 else block - r
  for _ in [0:z] do
    b := b.push 0
  let bits := n * 8
  for i in [0:lenBytes] do
    b := b.push (UInt8.ofNat ((bits >>> (8 * (lenBytes - 1 - i))) % 256))
  return b

def block256 (h : Array UInt32) (m : ByteArray) (off : Nat) : Array UInt32 := Id.run do
  let mut w : Array UInt32 := Array.mkEmpty 64
  for i in [0:16] do
    let j := off + 4 * i
    w := w.push ((m[j]!.toUInt32 <<< 24) ||| (m[j+1]!.toUInt32 <<< 16) ||| (m[j+2]!.toUInt32 <<< 8) ||| m[j+3]!.toUInt32)
  for i in [16:64] do
    let x := w[i-15]!
    let y := w[i-2]!
    let s0 := rotr32 x 7 ^^^ rotr32 x 18 ^^^ (x >>> 3)
    let s1 := rotr32 y 17 ^^^ rotr32 y 19 ^^^ (y >>> 10)
    w := w.push (w[i-16]! + s0 + w[i-7]! + s1)
  let mut a := h[0]!
  let mut b := h[1]!
  let mut c := h[2]!
  let mut d := h[3]!
  let mut e := h[4]!
  let mut f := h[5]!
  let mut g := h[6]!
  let mut hh := h[7]!
  for i in [0:64] do
    let s1 := rotr32 e 6 ^^^ rotr32 e 11 ^^^ rotr32 e 25
    let ch := (e &&& f) ^^^ ((~~~ e) &&& g)
    let t1 := hh + s1 + ch + k256[i]! + w[i]!
    let s0 := rotr32 a 2 ^^^ rotr32 a 13 ^^^ rotr32 a 22
    let mj := (a &&& b) ^^^ (a &&& c) ^^^ (b &&& c)
    let t2 := s0 + mj
    hh := g; g := f; f := e; e := d + t1; d := c; c := b; b := a; a := t1 + t2
  return #[h[0]! + a, h[1]! + b, h[2]! + c, h[3]! + d, h[4]! + e, h[5]! + f, h[6]! + g, h[7]! + hh]

def block512 (h : Array UInt64) (m : ByteArray) (off : Nat) : Array UInt64 := Id.run do
  let mut w : Array UInt64 := Array.mkEmpty 80
  for i in [0:16] do
    let j := off + 8 * i
    let mut x : UInt64 := 0
    for k in [0:8] do
      x := (x <<< 8) ||| m[j+k]!.toUInt64
    w := w.push x
  for i in [16:80] do
    let x := w[i-15]!
    let y := w[i-2]!
    let s0 := rotr64 x 1 ^^^ rotr64 x 8 ^^^ (x >>> 7)
    let s1 := rotr64 y 19 ^^^ rotr64 y 61 ^^^ (y >>> 6)
    w := w.push (w[i-16]! + s0 + w[i-7]! + s1)
  let mut a := h[0]!
  let mut b := h[1]!
  let mut c := h[2]!
  let mut d := h[3]!
  let mut e := h[4]!
  let mut f := h[5]!
  let mut g := h[6]!
  let mut hh := h[7]!
  for i in [0:80] do
    let s1 := rotr64 e 14 ^^^ rotr64 e 18 ^^^ rotr64 e 41
    let ch := (e &&& f) ^^^ ((~~~ e) &&& g)
    let t1 := hh + s1 + ch + k512[i]! + w[i]!
    let s0 := rotr64 a 28 ^^^ rotr64 a 34 ^^^ rotr64 a 39
    let mj := (a &&& b) ^^^ (a &&& c) ^^^ (b &&& c)
    let t2 := s0 + mj
    hh := g; g := f; f := e; e := d + t1; d := c; c := b; b := a; a := t1 + t2
  return #[h[0]! + a, h[1]! + b, h[2]! + c, h[3]! + d, h[4]! + e, h[5]! + f, h[6]! + g, h[7]! + hh]

def hexDigit (n : Nat) : Char := if n < 10 then Char.ofNat (48 + n) else Char.ofNat (87 + n)

def hex32 (x : UInt32) : List Char :=
  (List.range 8).map fun i => hexDigit ((x.toNat >>> (4 * (7 - i))) % 16)

def hex64 (x : UInt64) : List Char :=
  (List.range 16).map fun i => hexDigit ((x.toNat >>> (4 * (15 - i))) % 16)

/-- lowercase hex of SHA-256 -/
def sha256HexBytes (msg : ByteArray) : List Char := Id.run do
  let m := pad msg 64 8
  let mut h := iv256
  for b in [0:m.size / 64] do
    h := block256 h m (64 * b)
  return h.toList.flatMap hex32

/-- lowercase hex of SHA-384 (= SHA-512 with its own IV, truncated to 48 bytes) -/
def sha384HexBytes (msg : ByteArray) : List Char := Id.run do
  let m := pad msg 128 16
  let mut h := iv384
  for b in [0:m.size / 128] do
    h := block512 h m (128 * b)
  return (h.toList.take 6).flatMap hex64

/-- digests of the UTF-8 encoding of a code-point list (what `HashFunction::update(&str)` sees) -/
def sha256Hex (s : List Char) : List Char := sha256HexBytes (String.ofList s).toUTF8
def sha384Hex (s : List Char) : List Char := sha384HexBytes (String.ofList s).toUTF8

end SophiaModel.Sha2
