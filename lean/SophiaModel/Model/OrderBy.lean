/-
C14 — the comparator behind SPARQL `ORDER BY`, transcribed from
  sparql/src/exec.rs            `order_by` / `cmp_bindings_with`
  sparql/src/expression.rs      `EvalResult::sparql_cmp`, `sparql_order_by`
  sparql/src/value.rs           `SparqlValue::try_from_literal`, `PartialOrd for SparqlValue`
  sparql/src/value/_number.rs   `SparqlNumber`, `coerce_to_*`, `coercing_operator`, `PartialOrd`
  sparql/src/value/_xsd_date_time.rs  `XsdDateTime::new`, `PartialOrd`, `heterogeneous_cmp`
and of the third-party parsers/conversions those call (std integer/float `FromStr`,
num-bigint 0.4.8 `BigInt::from_str`/`to_f64`/`to_f32`, bigdecimal 0.4.10 `from_str`/`to_f64`,
chrono 0.4 date validation), which are tied to the code by the differential only.

Numbers are exact: integers are `Int`, decimals are `(int_val, scale)` as in `BigDecimal`, and a
finite `f32`/`f64` is an integer multiple of 2^-1074 (every finite binary32/binary64 value is one),
so IEEE comparison is integer comparison.  `-0.0` is identified with `+0.0` (`partial_cmp` cannot
tell them apart).  Rounding to binary32/binary64 is round-to-nearest-even, defined concretely
(`roundBin`).  Scope restrictions (the driver answers `skip=…` outside of them):
  * a decimal whose `BigDecimal::to_f64` goes through `f64` multiplication by `powi(10, n)`
    (negative scale, i.e. written with an exponent such as `1e3`) is not converted to float/double;
  * non-ASCII characters in xsd:dateTime lexical forms when the regex uses the Unicode-aware `\d`; which
    of `\d`/`[0-9]` and `.unwrap()`/`.ok()?` the source uses, and whether `naive_to_fixed` treats an
    overflowing offset as `unreachable!()`, is regenerated from it (Gen/DateTimeFlags.lean,
    tools/extractors/c14.py).  The whole range of chrono's `NaiveDate` (years -262143 ..= 262142) is
    modelled, including the overflow of `checked_sub_offset` at its two ends: the comparison of a
    timezoned with a non-timezoned dateTime PANICS there (`XsdDateTime.cmpPanics`);
  * ORDER BY keys are variables (values come from the store as terms, `EvalResult::Term`).
-/
import SophiaModel.Basic.TermOrder
import SophiaModel.Gen.DateTimeFlags
import SophiaModel.Gen.XsdDispatch

namespace SophiaModel.OrderBy
open SophiaModel SophiaModel.Term

/-! ## floating point values -/

/-- value of an `f32`/`f64`: NaN, ±∞, or `k · 2^-1074` -/
inductive FVal where
  | nan | ninf | pinf
  | fin (k : Int)
  deriving Repr, DecidableEq, Inhabited

/-- `f64::partial_cmp` / `f32::partial_cmp` -/
def FVal.partialCmp : FVal → FVal → Option Ordering
  | .nan, _ => none
  | _, .nan => none
  | .ninf, .ninf => some .eq
  | .ninf, _ => some .lt
  | _, .ninf => some .gt
  | .pinf, .pinf => some .eq
  | .pinf, _ => some .gt
  | _, .pinf => some .lt
  | .fin a, .fin b => some (compare a b)

/-- is `n/d ≥ 2^e` (n, d > 0) -/
def geTwoPow (n d : Nat) (e : Int) : Bool :=
  if e ≥ 0 then decide (d * 2 ^ e.toNat ≤ n) else decide (d ≤ n * 2 ^ (-e).toNat)

/-- `⌊log2 (n/d)⌋` for `n, d > 0` -/
def floorLog2 (n d : Nat) : Int :=
  let e0 : Int := (n.log2 : Int) - (d.log2 : Int)
  if geTwoPow n d e0 then e0 else e0 - 1

/-- round-to-nearest, ties-to-even, of the positive rational `n/d` to a binary format with `prec`
significand bits, least quantum `2^qmin` (subnormals) and overflow threshold `2^emax`; the result is
expressed in units of `2^-1074`; `none` = overflow (rounds to infinity) -/
def roundBin (prec : Nat) (qmin : Int) (emax : Nat) (n d : Nat) : Option Nat :=
  if n == 0 then some 0 else
  let e := floorLog2 n d
  let u : Int := max (e - ((prec : Int) - 1)) qmin
  let num := if u ≥ 0 then n else n * 2 ^ (-u).toNat
  let den := if u ≥ 0 then d * 2 ^ u.toNat else d
  let f := num / den
  let r := num % den
  let m := if 2 * r < den then f else if den < 2 * r then f + 1 else if f % 2 == 0 then f else f + 1
  let k := m * 2 ^ (u + 1074).toNat
  if 2 ^ (emax + 1074) ≤ k then none else some k

def signedRound (prec : Nat) (qmin : Int) (emax : Nat) (neg : Bool) (n d : Nat) : FVal :=
  match roundBin prec qmin emax n d with
  | none => if neg then .ninf else .pinf
  | some k => .fin (if neg then -(k : Int) else k)

/-- nearest `f64` to `±n/d` -/
def toF64 (neg : Bool) (n d : Nat) : FVal := signedRound 53 (-1074) 1024 neg n d
/-- nearest `f32` to `±n/d` -/
def toF32 (neg : Bool) (n d : Nat) : FVal := signedRound 24 (-149) 128 neg n d

/-- `i as f64`, `BigInt::to_f64` (both correctly rounded; overflow gives ±∞) -/
def intToF64 (i : Int) : FVal := toF64 (decide (i < 0)) i.natAbs 1
/-- `i as f32`, `BigInt::to_f32` -/
def intToF32 (i : Int) : FVal := toF32 (decide (i < 0)) i.natAbs 1

/-- `x as f32` for an `f64` -/
def f64ToF32 : FVal → FVal
  | .fin k => toF32 (decide (k < 0)) k.natAbs (2 ^ 1074)
  | v => v

/-! ## decimals (`BigDecimal { int_val, scale }`, value `int_val · 10^-scale`) -/

/-- `BigDecimal::cmp` (exact) -/
def decCmp (m1 : Int) (s1 : Int) (m2 : Int) (s2 : Int) : Ordering :=
  let s := max s1 s2
  compare (m1 * 10 ^ (s - s1).toNat) (m2 * 10 ^ (s - s2).toNat)

/-- `BigDecimal::to_f64` of bigdecimal 0.4.10; `none` = the branch multiplying by `powi(10.0, n)`,
`n > 0`, in `f64` arithmetic (not modelled) -/
def decToF64 (m : Int) (scale : Int) : Option FVal :=
  if m == 0 then some (.fin 0)
  else if scale == 0 then some (intToF64 m)
  else
    let bits : Nat := m.natAbs.log2 + 1
    -- `((bits + 1) as f64 * LOG10_2).floor()`
    let digitCount : Nat := ((bits + 1) * 30102999566398120) / 10 ^ 17
    let iter : Nat := (digitCount - 25) / 19
    let n : Nat := m.natAbs / 10 ^ (19 * iter)
    let s' : Int := scale - ((19 * iter : Nat) : Int)
    if s' > 0 then some (toF64 (decide (m < 0)) n (10 ^ s'.toNat))       -- "{n}e-{s'}".parse::<f64>()
    else if s' == 0 then some (toF64 (decide (m < 0)) n 1)                -- n.to_f64() * powi(10.0, 0)
    else none

/-! ## `SparqlNumber` -/

inductive SparqlNumber where
  | nativeInt (i : Int)          -- `isize`
  | bigInt (i : Int)
  | decimal (m : Int) (scale : Int)
  | float (f : FVal)
  | double (f : FVal)
  deriving Repr, DecidableEq, Inhabited

namespace SparqlNumber

def isPositive : SparqlNumber → Bool
  | .nativeInt i | .bigInt i => decide (0 < i)
  | .decimal m _ => decide (0 < m)
  | .float f | .double f => match f with | .pinf => true | .fin k => decide (0 < k) | _ => false

def isNegative : SparqlNumber → Bool
  | .nativeInt i | .bigInt i => decide (i < 0)
  | .decimal m _ => decide (m < 0)
  | .float f | .double f => match f with | .ninf => true | .fin k => decide (k < 0) | _ => false

/-- `coerce_to_decimal` (only ever called on integers; `panic!()` otherwise) -/
def coerceToDecimal : SparqlNumber → Int × Int
  | .nativeInt i | .bigInt i => (i, 0)
  | .decimal m s => (m, s)
  | _ => (0, 0)

/-- is the conversion of this number to `f64`/`f32` inside the modelled domain -/
def floatConvertible : SparqlNumber → Bool
  | .decimal m s => (decToF64 m s).isSome
  | _ => true

/-- `coerce_to_double` -/
def coerceToDouble : SparqlNumber → FVal
  | .nativeInt i | .bigInt i => intToF64 i
  | .decimal m s => (decToF64 m s).getD .nan
  | .float f | .double f => f

/-- `coerce_to_float` -/
def coerceToFloat : SparqlNumber → FVal
  | .nativeInt i | .bigInt i => intToF32 i
  | .decimal m s => f64ToF32 ((decToF64 m s).getD .nan)      -- default `ToPrimitive::to_f32` = `to_f64() as f32`
  | .float f => f
  | .double f => f64ToF32 f

/-- `PartialOrd for &SparqlNumber` through `coercing_operator` (arms in the code's order) -/
def partialCmp (a b : SparqlNumber) : Option Ordering :=
  match a, b with
  | .double x, r => x.partialCmp r.coerceToDouble
  | l, .double y => l.coerceToDouble.partialCmp y
  | .float x, r => x.partialCmp r.coerceToFloat
  | l, .float y => l.coerceToFloat.partialCmp y
  | .decimal m1 s1, .decimal m2 s2 => some (decCmp m1 s1 m2 s2)
  | .decimal m1 s1, r => some (decCmp m1 s1 r.coerceToDecimal.1 r.coerceToDecimal.2)
  | l, .decimal m2 s2 => some (decCmp l.coerceToDecimal.1 l.coerceToDecimal.2 m2 s2)
  | .bigInt x, .bigInt y => some (compare x y)
  | .nativeInt x, .bigInt y => some (compare x y)
  | .bigInt x, .nativeInt y => some (compare x y)
  | .nativeInt x, .nativeInt y => some (compare x y)

end SparqlNumber

/-! ## lexical forms -/

def isDigit (c : Char) : Bool := '0' ≤ c && c ≤ '9'

def digitsVal (cs : List Char) : Nat := cs.foldl (fun acc c => acc * 10 + (c.toNat - 48)) 0

/-- `<iN/uN as FromStr>::from_str` without the range check -/
def parseStdInt (signed : Bool) (s : Str) : Option Int :=
  match s with
  | [] => none
  | ['+'] => none
  | ['-'] => none
  | '+' :: rest => if rest.all isDigit then some (digitsVal rest) else none
  | '-' :: rest => if signed && rest.all isDigit then some (-(digitsVal rest : Int)) else none
  | cs => if cs.all isDigit then some (digitsVal cs) else none

def parseRanged (signed : Bool) (lo hi : Int) (s : Str) : Option Int :=
  match parseStdInt signed s with
  | some v => if lo ≤ v && v ≤ hi then some v else none
  | none => none

/-- `BigUint::from_str_radix(s, 10)` of num-bigint: one optional `+`, `_` separators allowed after
the first digit -/
def parseBigUint (s : Str) : Option Nat :=
  let s := match s with
    | '+' :: tail => (match tail with | '+' :: _ => s | _ => tail)
    | _ => s
  match s with
  | [] => none
  | '_' :: _ => none
  | cs => if cs.all (fun c => isDigit c || c == '_') then some (digitsVal (cs.filter (· != '_'))) else none

/-- `BigInt::from_str` -/
def parseBigInt (s : Str) : Option Int :=
  match s with
  | '-' :: tail =>
    let s' := match tail with | '+' :: _ => s | _ => tail
    (parseBigUint s').map (fun n => -(n : Int))
  | _ => (parseBigUint s).map (fun n => (n : Int))

def isizeMin : Int := -9223372036854775808
def isizeMax : Int := 9223372036854775807

/-- `From<i64/u64/…> for SparqlNumber` -/
def ofInt (v : Int) : SparqlNumber :=
  if isizeMin ≤ v && v ≤ isizeMax then .nativeInt v else .bigInt v

/-- `SparqlNumber::try_parse_integer` -/
def tryParseInteger (lex : Str) : Option SparqlNumber :=
  match parseRanged true isizeMin isizeMax lex with
  | some v => some (.nativeInt v)
  | none => (parseBigInt lex).map .bigInt

/-- split at the first character satisfying `p` (that character dropped) -/
def splitAtFirst (p : Char → Bool) : List Char → List Char × Option (List Char)
  | [] => ([], none)
  | c :: cs => if p c then ([], some cs) else
      let (a, b) := splitAtFirst p cs
      (c :: a, b)

/-- `BigDecimal::from_str` of bigdecimal 0.4.10 → `(int_val, scale)` -/
def parseDecimal (s : Str) : Option (Int × Int) :=
  let (base, expPart) := splitAtFirst (fun c => c == 'e' || c == 'E') s
  let expo : Option Int := match expPart with
    | none => some 0
    | some e => parseStdInt true e         -- `i128::from_str` (range irrelevant below)
  match expo with
  | none => none
  | some ev =>
    if base.isEmpty then none else
    let (lead, trail) := splitAtFirst (· == '.') base
    let (digits, off) : List Char × Nat := match trail with
      | none => (base, 0)
      | some [] => (lead, 0)
      | some t => (lead ++ t, (t.filter (· != '_')).length)
    (parseBigInt digits).map (fun i => (i, (off : Int) - ev))

/-- number of decimal digits of `n` (0 for 0) -/
def numDigits (n : Nat) : Nat := if n == 0 then 0 else (Nat.toDigits 10 n).length

inductive FloatLex where
  | nan
  | inf (neg : Bool)
  | num (neg : Bool) (mant : Nat) (exp10 : Int)
  deriving Repr

def lowerAsciiLetters (s : Str) : Str := s.map lowerAscii

/-- grammar of `core::num::dec2flt`: `[+-]? (digits [. digits?]? | . digits) ([eE] [+-]? digits)?`
or `[+-]? (inf | infinity | nan)` in any letter case -/
def parseFloatLex (s : Str) : Option FloatLex :=
  match s with
  | [] => none
  | c :: rest0 =>
    let neg := c == '-'
    let body := if c == '-' || c == '+' then rest0 else s
    if body.isEmpty then none else
    let ip := body.takeWhile isDigit
    let r1 := body.dropWhile isDigit
    let (fp, r2) : List Char × List Char := match r1 with
      | '.' :: t => (t.takeWhile isDigit, t.dropWhile isDigit)
      | _ => ([], r1)
    let number : Option FloatLex :=
      if ip.length + fp.length == 0 then none else
      let mant := digitsVal (ip ++ fp)
      match r2 with
      | [] => some (.num neg mant (-(fp.length : Int)))
      | e :: t =>
        if e == 'e' || e == 'E' then
          let (eneg, ds) := match t with
            | '-' :: u => (true, u)
            | '+' :: u => (false, u)
            | u => (false, u)
          if !ds.isEmpty && ds.all isDigit then
            -- the code saturates huge exponents; 100000 is far beyond every finite range
            let ev : Int := if ds.length > 7 then 100000000 else digitsVal ds
            some (.num neg mant (-(fp.length : Int) + (if eneg then -ev else ev)))
          else none
        else none
    match number with
    | some n => some n
    | none =>
      let l := lowerAsciiLetters body
      if l == "nan".toList then some .nan
      else if l == "inf".toList || l == "infinity".toList then some (.inf neg)
      else none

/-- correctly rounded value of `mant · 10^exp10` (huge exponents short-circuited: they overflow /
underflow in both formats) -/
def floatLexVal (round : Bool → Nat → Nat → FVal) : FloatLex → FVal
  | .nan => .nan
  | .inf neg => if neg then .ninf else .pinf
  | .num neg mant e =>
    if mant == 0 then .fin 0
    else
      let mag : Int := (numDigits mant : Int) + e
      if mag > 400 then (if neg then .ninf else .pinf)
      else if mag < -400 then .fin 0
      else if e ≥ 0 then round neg (mant * 10 ^ e.toNat) 1
      else round neg mant (10 ^ (-e).toNat)

def parseF64 (s : Str) : Option FVal := (parseFloatLex s).map (floatLexVal toF64)
def parseF32 (s : Str) : Option FVal := (parseFloatLex s).map (floatLexVal toF32)

/-! ## xsd:dateTime -/

/-- `Naive`: nanoseconds of the wall-clock reading; `Timezoned`: nanoseconds of the UTC instant
(both counted from 1970-01-01T00:00:00 in the proleptic Gregorian calendar) -/
inductive XsdDateTime where
  | naive (t : Int)
  | zoned (t : Int)
  deriving Repr, DecidableEq, Inhabited

def nsPerHour : Int := 3600 * 1000000000

/-- `NaiveDate::MIN` = -262143-01-01 and `NaiveDate::MAX` = 262142-12-31 of chrono 0.4, in days since
1970-01-01 (`= daysFromCivil (-262143) 1 1`, `daysFromCivil 262142 12 31`: checked below) -/
def chronoMinDay : Int := -96465292
def chronoMaxDay : Int := 95026236
/-- first and last nanosecond chrono can represent (`NaiveDateTime::MIN/MAX`, leap seconds aside) -/
def chronoMin : Int := -8334601228800000000000
def chronoMax : Int := 8210266876799999999999

/-- `PartialOrd for XsdDateTime` with `heterogeneous_cmp` (±14 h window, no implicit timezone): the
outcome when no `naive_to_fixed` overflows (see `cmpPanics`); it is also the exact answer in the
overflowing cases (`n - 14h` below chrono's range is below every `z`, `n + 14h` above it above every `z`) -/
def XsdDateTime.partialCmp : XsdDateTime → XsdDateTime → Option Ordering
  | .naive a, .naive b => some (compare a b)
  | .zoned a, .zoned b => some (compare a b)
  | .zoned z, .naive n =>
    if z < n - 14 * nsPerHour then some .lt else if n + 14 * nsPerHour < z then some .gt else none
  | .naive n, .zoned z =>
    if z < n - 14 * nsPerHour then some .gt else if n + 14 * nsPerHour < z then some .lt else none

/-- `heterogeneous_cmp(z, n)`: does one of its two `naive_to_fixed` calls reach `unreachable!()`?
`naive_to_fixed(n, 14)` (UTC instant `n - 14h`; always evaluated) overflows below chrono's range,
`naive_to_fixed(n, -14)` (`n + 14h`; evaluated only when `z < n - 14h` is false) above it:
`NaiveDateTime::and_local_timezone` is then `LocalResult::None` (`checked_sub_offset`). -/
def hetPanics (z n : Int) : Bool :=
  Gen.dateTimeOffsetUnreachable &&
    (decide (n - 14 * nsPerHour < chronoMin) ||
      (!decide (z < n - 14 * nsPerHour) && decide (chronoMax < n + 14 * nsPerHour)))

/-- does `XsdDateTime::partial_cmp` panic -/
def XsdDateTime.cmpPanics : XsdDateTime → XsdDateTime → Bool
  | .zoned z, .naive n => hetPanics z n
  | .naive n, .zoned z => hetPanics z n
  | _, _ => false

def isLeap (y : Int) : Bool := y % 4 == 0 && (y % 100 != 0 || y % 400 == 0)

def daysInMonth (y : Int) (m : Nat) : Nat :=
  match m with
  | 1 | 3 | 5 | 7 | 8 | 10 | 12 => 31
  | 4 | 6 | 9 | 11 => 30
  | 2 => if isLeap y then 29 else 28
  | _ => 0

/-- days since 1970-01-01 (proleptic Gregorian, astronomical year numbering) -/
def daysFromCivil (y : Int) (m d : Nat) : Int :=
  let y' := if m ≤ 2 then y - 1 else y
  let era := y' / 400
  let yoe := y' - era * 400
  let mp : Int := ((m + 9) % 12 : Nat)
  let doy := (153 * mp + 2) / 5 + (d : Int) - 1
  let doe := yoe * 365 + yoe / 4 - yoe / 100 + doy
  era * 146097 + doe - 719468

inductive DTParse where
  | panic                       -- an `unwrap()` inside `XsdDateTime::new` fails
  | outside                     -- outside the modelled domain
  | invalid                     -- `Err(..)`  ⇒ `SparqlValue::DateTime(None)`
  | ok (d : XsdDateTime)
  deriving Repr

def take2 (cs : List Char) : Option (Nat × List Char) :=
  match cs with
  | a :: b :: rest => if isDigit a && isDigit b then some (digitsVal [a, b], rest) else none
  | _ => none

def expect (c : Char) (cs : List Char) : Option (List Char) :=
  match cs with
  | x :: rest => if x == c then some rest else none
  | [] => none

/-- `XsdDateTime::new`: the regex
`^(-)?(\d{4,})-(\d{2}-\d{2}T\d{2}:\d{2}:\d{2})(?:\.(\d+))?(Z|[-+]\d{2}:\d{2})?$`, then chrono's validation -/
def parseDateTime (s : Str) : DTParse :=
  -- a non-ASCII character: with `\d` it may be a Unicode digit (not modelled); with `[0-9]` nothing in the
  -- regex can match it
  if s.any (fun c => c.toNat ≥ 128) then (if Gen.dateTimeUnicodeDigits then .outside else .invalid) else
  let (neg, s1) := match s with | '-' :: r => (true, r) | _ => (false, s)
  let yd := s1.takeWhile isDigit
  let s2 := s1.dropWhile isDigit
  if yd.length < 4 then .invalid else
  let fields : Option (Nat × Nat × Nat × Nat × Nat × List Char) := do
    let r ← expect '-' s2
    let (mo, r) ← take2 r
    let r ← expect '-' r
    let (dd, r) ← take2 r
    let r ← expect 'T' r
    let (hh, r) ← take2 r
    let r ← expect ':' r
    let (mi, r) ← take2 r
    let r ← expect ':' r
    let (ss, r) ← take2 r
    pure (mo, dd, hh, mi, ss, r)
  match fields with
  | none => .invalid
  | some (mo, dd, hh, mi, ss, r) =>
    -- optional fraction
    let fracR : Option (Option (List Char) × List Char) := match r with
      | '.' :: t =>
        let fd := t.takeWhile isDigit
        if fd.isEmpty then none else some (some fd, t.dropWhile isDigit)
      | _ => some (none, r)
    match fracR with
    | none => .invalid
    | some (frac, r) =>
      -- optional timezone
      let tzR : Option (Option Int) := match r with
        | [] => some none
        | ['Z'] => some (some 0)
        | sg :: t =>
          if sg == '+' || sg == '-' then
            (do
              let (th, t) ← take2 t
              let t ← expect ':' t
              let (tm, t) ← take2 t
              if t.isEmpty then
                pure (some ((if sg == '-' then -1 else 1) * ((th : Int) * 3600 + (tm : Int) * 60)))
              else none)
          else none
      match tzR with
      | none => .invalid
      | some tz =>
        -- the regex matched; from here on the code parses the captures
        let yv := digitsVal yd
        -- `year.parse::<i32>()` overflows: `.unwrap()` panics, `.ok()?` makes it an unsupported lexical form
        if yv > 2147483647 then (if Gen.dateTimeYearUnwrap then .panic else .invalid) else
        let year : Int := if neg then -(yv : Int) else yv
        if year < -262143 || year > 262142 then .invalid else      -- `NaiveDate::from_ymd_opt` (chrono's year range)
        let nano : Nat := match frac with
          | none => 0
          | some fd => if fd.length ≥ 9 then digitsVal (fd.take 9) else digitsVal fd * 10 ^ (9 - fd.length)
        if mo < 1 || mo > 12 || dd < 1 || dd > daysInMonth year mo then .invalid else
        let day := daysFromCivil year mo dd
        let secs : Option Int :=
          if hh == 24 && mi == 0 && ss == 0 && nano == 0 then
            (if chronoMaxDay < day + 1 then none else some ((day + 1) * 86400))   -- `checked_add_days(Days::new(1))?`
          else if hh < 24 && mi < 60 && ss < 60 then some (day * 86400 + hh * 3600 + mi * 60 + ss)
          else none
        match secs with
        | none => .invalid
        | some sec =>
          let t : Int := sec * 1000000000 + nano
          match tz with
          | none => .ok (.naive t)
          | some off =>
            if off ≤ -86400 || off ≥ 86400 then .invalid       -- `FixedOffset::east_opt`
            else
              let u : Int := t - off * 1000000000
              -- `naive.and_local_timezone(offset).single()?`: the UTC instant must be representable
              if u < chronoMin || chronoMax < u then .invalid else .ok (.zoned u)

/-! ## `SparqlValue` -/

inductive SparqlValue where
  | number (n : SparqlNumber)
  | string (lex : Str) (tag : Option Str)
  | boolean (b : Option Bool)
  | dateTime (d : Option XsdDateTime)
  deriving Repr, DecidableEq, Inhabited

def xsdPrefix : Str := "http://www.w3.org/2001/XMLSchema#".toList

def parseBool (s : Str) : Option Bool :=
  if s == "true".toList then some true else if s == "false".toList then some false else none

def checkNum (p : SparqlNumber → Bool) (n : Option SparqlNumber) : Option SparqlNumber :=
  match n with
  | some v => if p v then some v else none
  | none => none

/-- the datatypes `try_from_literal` recognises -/
inductive XsdKind where
  | integer | decimal | float | double | string | boolean | dateTime
  | nonPositiveInteger | negativeInteger | long | int | short | byte
  | nonNegativeInteger | unsignedLong | unsignedInt | unsignedShort | unsignedByte | positiveInteger
  deriving Repr, DecidableEq

/-! local names of the recognised datatypes (constants, so that proofs never unfold string literals) -/
namespace XsdName
def integer_ : Str := "integer".toList
def decimal_ : Str := "decimal".toList
def float_ : Str := "float".toList
def double_ : Str := "double".toList
def string_ : Str := "string".toList
def boolean_ : Str := "boolean".toList
def dateTime : Str := "dateTime".toList
def nonPositiveInteger : Str := "nonPositiveInteger".toList
def negativeInteger : Str := "negativeInteger".toList
def long_ : Str := "long".toList
def int_ : Str := "int".toList
def short_ : Str := "short".toList
def byte_ : Str := "byte".toList
def nonNegativeInteger : Str := "nonNegativeInteger".toList
def unsignedLong : Str := "unsignedLong".toList
def unsignedInt : Str := "unsignedInt".toList
def unsignedShort : Str := "unsignedShort".toList
def unsignedByte : Str := "unsignedByte".toList
def positiveInteger : Str := "positiveInteger".toList
end XsdName

/-- the `match &dt[xsd::PREFIX.len()..] { "integer" => …, … , _ => None }` dispatch -/
def xsdKind (name : Str) : Option XsdKind :=
  if name == XsdName.integer_ then some .integer
  else if name == XsdName.decimal_ then some .decimal
  else if name == XsdName.float_ then some .float
  else if name == XsdName.double_ then some .double
  else if name == XsdName.string_ then some .string
  else if name == XsdName.boolean_ then some .boolean
  else if name == XsdName.dateTime then some .dateTime
  else if name == XsdName.nonPositiveInteger then some .nonPositiveInteger
  else if name == XsdName.negativeInteger then some .negativeInteger
  else if name == XsdName.long_ then some .long
  else if name == XsdName.int_ then some .int
  else if name == XsdName.short_ then some .short
  else if name == XsdName.byte_ then some .byte
  else if name == XsdName.nonNegativeInteger then some .nonNegativeInteger
  else if name == XsdName.unsignedLong then some .unsignedLong
  else if name == XsdName.unsignedInt then some .unsignedInt
  else if name == XsdName.unsignedShort then some .unsignedShort
  else if name == XsdName.unsignedByte then some .unsignedByte
  else if name == XsdName.positiveInteger then some .positiveInteger
  else none

def numValue (o : Option SparqlNumber) : Option SparqlValue := o.map .number

/-- the arms of `SparqlValue::try_from_literal` -/
def valueOfKind (lex : Str) : XsdKind → Option SparqlValue
  | .integer => numValue (tryParseInteger lex)
  | .decimal => numValue ((parseDecimal lex).map (fun p => .decimal p.1 p.2))
  | .float => numValue ((parseF32 lex).map .float)
  | .double => numValue ((parseF64 lex).map .double)
  | .string => some (.string lex none)
  | .boolean => some (.boolean (parseBool lex))
  | .dateTime => some (.dateTime (match parseDateTime lex with | .ok d => some d | _ => none))
  | .nonPositiveInteger => numValue (checkNum (fun n => !n.isPositive) (tryParseInteger lex))
  | .negativeInteger => numValue (checkNum (·.isNegative) (tryParseInteger lex))
  | .long => numValue ((parseRanged true (-9223372036854775808) 9223372036854775807 lex).map ofInt)
  | .int => numValue ((parseRanged true (-2147483648) 2147483647 lex).map ofInt)
  | .short => numValue ((parseRanged true (-32768) 32767 lex).map ofInt)
  | .byte => numValue ((parseRanged true (-128) 127 lex).map ofInt)
  | .nonNegativeInteger => numValue (checkNum (fun n => !n.isNegative) (tryParseInteger lex))
  | .unsignedLong => numValue ((parseRanged false 0 18446744073709551615 lex).map ofInt)
  | .unsignedInt => numValue ((parseRanged false 0 4294967295 lex).map ofInt)
  | .unsignedShort => numValue ((parseRanged false 0 65535 lex).map ofInt)
  | .unsignedByte => numValue ((parseRanged false 0 255 lex).map ofInt)
  | .positiveInteger => numValue (checkNum (·.isPositive) (tryParseInteger lex))

/-- the local name of a datatype in the XSD namespace (`dt.starts_with(xsd::PREFIX)`, `&dt[PREFIX.len()..]`) -/
def xsdName (dt : Str) : Option Str :=
  if xsdPrefix.isPrefixOf dt then some (dt.drop xsdPrefix.length) else none

/-- `SparqlValue::try_from_literal` for a typed literal -/
def tryFromTyped (lex dt : Str) : Option SparqlValue :=
  match xsdName dt with
  | none => none
  | some name =>
    match xsdKind name with
    | none => none
    | some k => valueOfKind lex k

/-! ### the datatype dispatch as regenerated from the source (Gen/XsdDispatch.lean) and its meaning

`tryFromTyped` above is the hand transcription the theorems are about; `tryFromTypedGen` interprets the table
`Gen.xsdDispatch` that tools/extractors/c14.py regenerates from `try_from_literal`.  Props/C14.lean proves
`tryFromTyped = tryFromTypedGen` for all inputs (`tryFromTyped_eq_generated`), so an edit of any arm of the source
breaks a proof obligation (the model itself stays what the theorems were proved for; the differential then shows
the inputs). -/

/-- `SparqlNumber::try_parse::<ty>`: the `FromStr` of `ty`, then `Into<SparqlNumber>` -/
def parseAsSem (ty : String) (lex : Str) : Option SparqlNumber :=
  if ty == "BigDecimal" then (parseDecimal lex).map (fun p => .decimal p.1 p.2)
  else if ty == "f32" then (parseF32 lex).map .float
  else if ty == "f64" then (parseF64 lex).map .double
  else if ty == "i64" then (parseRanged true (-9223372036854775808) 9223372036854775807 lex).map ofInt
  else if ty == "i32" then (parseRanged true (-2147483648) 2147483647 lex).map ofInt
  else if ty == "i16" then (parseRanged true (-32768) 32767 lex).map ofInt
  else if ty == "i8" then (parseRanged true (-128) 127 lex).map ofInt
  else if ty == "u64" then (parseRanged false 0 18446744073709551615 lex).map ofInt
  else if ty == "u32" then (parseRanged false 0 4294967295 lex).map ofInt
  else if ty == "u16" then (parseRanged false 0 65535 lex).map ofInt
  else if ty == "u8" then (parseRanged false 0 255 lex).map ofInt
  else none

/-- the predicates `check` is called with -/
def predSem (pred : String) : Option (SparqlNumber → Bool) :=
  if pred == "is_positive" then some SparqlNumber.isPositive
  else if pred == "is_negative" then some SparqlNumber.isNegative
  else none

/-- meaning of an arm of the generated table (`none` also for an arm this model has no meaning for) -/
def armSem : Gen.XsdArm → Str → Option SparqlValue
  | .parseInteger, lex => numValue (tryParseInteger lex)
  | .parseAs ty, lex => numValue (parseAsSem ty lex)
  | .checked negated pred, lex =>
    match predSem pred with
    | some p => numValue (checkNum (fun n => if negated then !p n else p n) (tryParseInteger lex))
    | none => none
  | .string, lex => some (.string lex none)
  | .boolean, lex => some (.boolean (parseBool lex))
  | .dateTime, lex => some (.dateTime (match parseDateTime lex with | .ok d => some d | _ => none))

/-- local name of the datatype of each arm -/
def kindNameS : XsdKind → String
  | .integer => "integer" | .decimal => "decimal" | .float => "float" | .double => "double" | .string => "string"
  | .boolean => "boolean" | .dateTime => "dateTime" | .nonPositiveInteger => "nonPositiveInteger"
  | .negativeInteger => "negativeInteger" | .long => "long" | .int => "int" | .short => "short" | .byte => "byte"
  | .nonNegativeInteger => "nonNegativeInteger" | .unsignedLong => "unsignedLong" | .unsignedInt => "unsignedInt"
  | .unsignedShort => "unsignedShort" | .unsignedByte => "unsignedByte" | .positiveInteger => "positiveInteger"

/-- the arms of `xsdKind` / `valueOfKind` in the order of the source -/
def XsdKind.all : List XsdKind :=
  [.integer, .decimal, .float, .double, .string, .boolean, .dateTime, .nonPositiveInteger, .negativeInteger, .long, .int,
   .short, .byte, .nonNegativeInteger, .unsignedLong, .unsignedInt, .unsignedShort, .unsignedByte, .positiveInteger]

/-- the right-hand side `valueOfKind` transcribes, as a descriptor of the generated table -/
def armOfKind : XsdKind → Gen.XsdArm
  | .integer => .parseInteger
  | .decimal => .parseAs "BigDecimal"
  | .float => .parseAs "f32"
  | .double => .parseAs "f64"
  | .string => .string
  | .boolean => .boolean
  | .dateTime => .dateTime
  | .nonPositiveInteger => .checked true "is_positive"
  | .negativeInteger => .checked false "is_negative"
  | .long => .parseAs "i64"
  | .int => .parseAs "i32"
  | .short => .parseAs "i16"
  | .byte => .parseAs "i8"
  | .nonNegativeInteger => .checked true "is_negative"
  | .unsignedLong => .parseAs "u64"
  | .unsignedInt => .parseAs "u32"
  | .unsignedShort => .parseAs "u16"
  | .unsignedByte => .parseAs "u8"
  | .positiveInteger => .checked false "is_positive"

/-- `try_from_literal` for a typed literal, read off the GENERATED table: first arm whose name matches -/
def tryFromTypedGen (lex dt : Str) : Option SparqlValue :=
  match xsdName dt with
  | none => none
  | some name =>
    match Gen.xsdDispatch.find? (fun p => name == p.1.toList) with
    | none => none
    | some p => armSem p.2 lex

/-- `SparqlValue::try_from_term` -/
def tryFromTerm : Term → Option SparqlValue
  | .lang lex tag => some (.string lex (some tag))
  | .lit lex dt => tryFromTyped lex dt
  | _ => none

/-- does evaluating the value of this term panic (`unwrap()` on the year of an xsd:dateTime) -/
def panics : Term → Bool
  | .lit lex dt => dt == xsdPrefix ++ XsdName.dateTime && (match parseDateTime lex with | .panic => true | _ => false)
  | _ => false

/-- does `SparqlValue::partial_cmp` panic (only the dateTime arm can) -/
def SparqlValue.cmpPanics : SparqlValue → SparqlValue → Bool
  | .dateTime (some d1), .dateTime (some d2) => d1.cmpPanics d2
  | _, _ => false

/-- does `EvalResult::sparql_cmp` (hence FILTER's `<` and `sparql_order_by`) panic on these two terms -/
def sparqlCmpPanics (a b : Term) : Bool :=
  match tryFromTerm a, tryFromTerm b with
  | some va, some vb => va.cmpPanics vb
  | _, _ => false

/-- is the term inside the modelled domain (see the header) -/
def inDomain : Term → Bool
  | .lit lex dt => !(dt == xsdPrefix ++ XsdName.dateTime && (match parseDateTime lex with | .outside => true | _ => false))
  | _ => true

/-- `PartialOrd for SparqlValue` -/
def SparqlValue.partialCmp : SparqlValue → SparqlValue → Option Ordering
  | .number a, .number b => a.partialCmp b
  | .string s1 none, .string s2 none => some (strCmp s1 s2)
  | .string s1 (some t1), .string s2 (some t2) => some ((tagCmp t1 t2).then (strCmp s1 s2))
  | .boolean (some b1), .boolean (some b2) => some (compare b1.toNat b2.toNat)
  | .dateTime (some d1), .dateTime (some d2) => d1.partialCmp d2
  | _, _ => none

def isLiteral : Term → Bool
  | .lit _ _ => true
  | .lang _ _ => true
  | _ => false

/-- `EvalResult::sparql_cmp` (the comparison behind FILTER's `<`, `<=`, `>`, `>=`) for results that
are terms -/
def sparqlCmp (a b : Term) : Option Ordering :=
  match tryFromTerm a, tryFromTerm b with
  | some va, some vb => va.partialCmp vb
  | _, _ => if isLiteral a && isLiteral b && termEq a b then some .eq else none

/-- `EvalResult::sparql_order_by` -/
def sparqlOrderBy (a : Term) (b : Option Term) : Ordering :=
  match b with
  | some v => (sparqlCmp a v).getD (termCmp a v)
  | none => .gt

/-! ## `cmp_bindings_with` -/

/-- a solution: variable name ↦ term -/
abbrev Binding := List (Str × Term)

/-- `ArcExpression::Variable(v).eval(b)` -/
def eval (v : Str) (b : Binding) : Option Term := (b.find? (fun p => p.1 == v)).map (·.2)

/-- comparison of two solutions on one ORDER BY criterion (before ASC/DESC) -/
def keyCmp (v1 v2 : Option Term) : Ordering :=
  match v1, v2 with
  | none, none => .eq
  | none, some _ => .lt
  | some x, v2 => sparqlOrderBy x v2

/-- `cmp_bindings_with`; a criterion is (variable, descending?) -/
def cmpBindingsWith (b1 b2 : Binding) : List (Str × Bool) → Ordering
  | [] => .eq
  | (e, desc) :: rest =>
    let o := keyCmp (eval e b1) (eval e b2)
    let o := if desc then o.swap else o
    o.then (cmpBindingsWith b1 b2 rest)

/-- does the comparison of two solutions on one criterion panic -/
def keyPanics (v1 v2 : Option Term) : Bool :=
  match v1, v2 with
  | some x, some y => sparqlCmpPanics x y
  | _, _ => false

/-- does `cmp_bindings_with` reach a panicking comparison: criteria are evaluated left to right, a later
one only when all earlier ones tie (`then_with`) -/
def cmpBindingsPanics (b1 b2 : Binding) : List (Str × Bool) → Bool
  | [] => false
  | (e, _) :: rest =>
    keyPanics (eval e b1) (eval e b2) ||
      (keyCmp (eval e b1) (eval e b2) == .eq && cmpBindingsPanics b1 b2 rest)

/-- rank of a key value for the kind-order clause of the property: unbound < blank node < IRI <
literal (`none` = not ranked by the property: quoted triples, variables) -/
def kindRank : Option Term → Option Nat
  | none => some 0
  | some (.bnode _) => some 1
  | some (.iri _) => some 2
  | some (.lit _ _) => some 3
  | some (.lang _ _) => some 3
  | _ => none

/-! ## the sort: `slice::sort_unstable_by` on at most 20 elements

`core::slice::sort::unstable::sort` (Rust 1.95, not `optimize_for_size`): `len < 2` → nothing;
`len <= MAX_LEN_ALWAYS_INSERTION_SORT (= 20)` → `insertion_sort_shift_left(v, 1, is_less)`; otherwise `ipnsort`
(not modelled).  `insert_tail` moves the new element left past every element it `is_less` than, stopping at the
first one it is not (or at the beginning).  `is_less(a, b)` is `compare(a, b) == Less`. -/

/-- `insert_tail`; the already sorted prefix is given REVERSED (its last element first) -/
def insertTail {α : Type} (lt : α → α → Bool) (x : α) : List α → List α
  | [] => [x]
  | y :: ys => if lt x y then y :: insertTail lt x ys else x :: y :: ys

/-- `insertion_sort_shift_left(v, 1, is_less)`, result reversed -/
def insertionSortRev {α : Type} (lt : α → α → Bool) (l : List α) : List α :=
  l.foldl (fun acc x => insertTail lt x acc) []

/-- `v.sort_unstable_by(c)` for `v.len() <= 20` -/
def stdSmallSort {α : Type} (c : α → α → Ordering) (l : List α) : List α :=
  (insertionSortRev (fun a b => c a b == .lt) l).reverse

/-- the number of rows up to which `stdSmallSort` is what std runs -/
def smallSortMax : Nat := 20

/-- how a pair of terms is compared: by value (`v`) or by the `Term::cmp` fallback (`t`) -/
def byValue (a b : Term) : Bool := (sparqlCmp a b).isSome

/-! ## a repaired comparator (documents the fix; not what the code does)

Class rank first, exact comparison inside a class.  Every term gets a key in a linearly ordered
type; values that SPARQL's `<` can compare are ordered by their exact value (no rounding: an
integer, a decimal, a float and a double are compared as the rationals they denote), everything
else by `Term::cmp`. -/

inductive NumKey where
  | ninf | fin (num : Int) (den : Nat) | pinf | nan
  deriving Repr, DecidableEq

def NumKey.rank : NumKey → Nat
  | .ninf => 0 | .fin _ _ => 1 | .pinf => 2 | .nan => 3

/-- exact order on number keys: −∞ < finite (by value `num/den`, `den > 0`) < +∞ < NaN -/
def NumKey.cmp : NumKey → NumKey → Ordering
  | .fin n1 d1, .fin n2 d2 => compare (n1 * d2) (n2 * d1)
  | a, b => compare a.rank b.rank

def fvalKey : FVal → NumKey
  | .nan => .nan | .ninf => .ninf | .pinf => .pinf
  | .fin k => .fin k (2 ^ 1074)

def numKey : SparqlNumber → NumKey
  | .nativeInt i | .bigInt i => .fin i 1
  | .decimal m s => if s ≥ 0 then .fin m (10 ^ s.toNat) else .fin (m * 10 ^ (-s).toNat) 1
  | .float f | .double f => fvalKey f

end SophiaModel.OrderBy
