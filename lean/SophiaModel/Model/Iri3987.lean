/-
RFC 3987 (IRI) ABNF, transcribed production by production.  The grammar is not recursive,
so every production is a named regular expression.  (Transcribed offline from memory of
RFC 3987 §2.2 / RFC 3986 Appendix A; part of the trusted base, see DESIGN.md §5.)
-/
import SophiaModel.Regex.Comb

namespace SophiaModel.Rfc3987
open SophiaModel Re

def ALPHA : Re := ranges [(65, 90), (97, 122)]
def DIGIT : Re := rng '0' '9'
def HEXDIG : Re := ranges [(48, 57), (65, 70), (97, 102)]   -- case-insensitive per RFC 3986 §2.1/ABNF
def subDelims : Re := oneOf "!$&'()*+,;="
def ucschar : Re := ranges
  [(0xA0, 0xD7FF), (0xF900, 0xFDCF), (0xFDF0, 0xFFEF),
   (0x10000, 0x1FFFD), (0x20000, 0x2FFFD), (0x30000, 0x3FFFD),
   (0x40000, 0x4FFFD), (0x50000, 0x5FFFD), (0x60000, 0x6FFFD),
   (0x70000, 0x7FFFD), (0x80000, 0x8FFFD), (0x90000, 0x9FFFD),
   (0xA0000, 0xAFFFD), (0xB0000, 0xBFFFD), (0xC0000, 0xCFFFD),
   (0xD0000, 0xDFFFD), (0xE1000, 0xEFFFD)]
def iprivate : Re := ranges [(0xE000, 0xF8FF), (0xF0000, 0xFFFFD), (0x100000, 0x10FFFD)]
def unreserved : Re := alts [ALPHA, DIGIT, oneOf "-._~"]
def iunreserved : Re := alts [ALPHA, DIGIT, oneOf "-._~", ucschar]
def pctEncoded : Re := seqs [chr '%', HEXDIG, HEXDIG]
def ipchar : Re := alts [iunreserved, pctEncoded, subDelims, oneOf ":@"]

def scheme : Re := .cat ALPHA (.star (alts [ALPHA, DIGIT, oneOf "+-."]))

def iuserinfo : Re := .star (alts [iunreserved, pctEncoded, subDelims, chr ':'])
def decOctet : Re := alts
  [DIGIT,
   .cat (rng '1' '9') DIGIT,
   seqs [chr '1', DIGIT, DIGIT],
   seqs [chr '2', rng '0' '4', DIGIT],
   seqs [lit "25", rng '0' '5']]
def IPv4address : Re := seqs [decOctet, chr '.', decOctet, chr '.', decOctet, chr '.', decOctet]
def h16 : Re := between 1 4 HEXDIG
def ls32 : Re := .alt (seqs [h16, chr ':', h16]) IPv4address
def h16c : Re := .cat h16 (chr ':')
/-- `[ *n( h16 ":" ) h16 ]` -/
def pre (n : Nat) : Re := opt (.cat (upto n h16c) h16)
def IPv6address : Re := alts
  [ seqs [times 6 h16c, ls32],
    seqs [lit "::", times 5 h16c, ls32],
    seqs [opt h16, lit "::", times 4 h16c, ls32],
    seqs [pre 1, lit "::", times 3 h16c, ls32],
    seqs [pre 2, lit "::", times 2 h16c, ls32],
    seqs [pre 3, lit "::", h16c, ls32],
    seqs [pre 4, lit "::", ls32],
    seqs [pre 5, lit "::", h16],
    seqs [pre 6, lit "::"] ]
def IPvFuture : Re := seqs [oneOf "vV", plus HEXDIG, chr '.', plus (alts [unreserved, subDelims, chr ':'])]
def IPliteral : Re := seqs [chr '[', .alt IPv6address IPvFuture, chr ']']
def iregName : Re := .star (alts [iunreserved, pctEncoded, subDelims])
def ihost : Re := alts [IPliteral, IPv4address, iregName]
def port : Re := .star DIGIT
def iauthority : Re := seqs [opt (.cat iuserinfo (chr '@')), ihost, opt (.cat (chr ':') port)]

def isegment : Re := .star ipchar
def isegmentNz : Re := plus ipchar
def isegmentNzNc : Re := plus (alts [iunreserved, pctEncoded, subDelims, chr '@'])
def ipathAbempty : Re := .star (.cat (chr '/') isegment)
def ipathAbsolute : Re := .cat (chr '/') (opt (.cat isegmentNz (.star (.cat (chr '/') isegment))))
def ipathNoscheme : Re := .cat isegmentNzNc (.star (.cat (chr '/') isegment))
def ipathRootless : Re := .cat isegmentNz (.star (.cat (chr '/') isegment))
def ipathEmpty : Re := .eps

def iquery : Re := .star (alts [ipchar, iprivate, oneOf "/?"])
def ifragment : Re := .star (alts [ipchar, oneOf "/?"])

def ihierPart : Re := alts
  [ seqs [lit "//", iauthority, ipathAbempty], ipathAbsolute, ipathRootless, ipathEmpty ]
def irelativePart : Re := alts
  [ seqs [lit "//", iauthority, ipathAbempty], ipathAbsolute, ipathNoscheme, ipathEmpty ]

def IRI : Re := seqs [scheme, chr ':', ihierPart, opt (.cat (chr '?') iquery), opt (.cat (chr '#') ifragment)]
def irelativeRef : Re := seqs [irelativePart, opt (.cat (chr '?') iquery), opt (.cat (chr '#') ifragment)]
def IRIreference : Re := .alt IRI irelativeRef
def absoluteIRI : Re := seqs [scheme, chr ':', ihierPart, opt (.cat (chr '?') iquery)]

end SophiaModel.Rfc3987
