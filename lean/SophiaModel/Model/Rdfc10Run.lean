/-
Request handling shared by the C05 and C06 drivers (kept outside `Driver/` because every module
there becomes an executable).

  n <sha256|sha384> <depth factor: f32 bits, 8 hex digits> <permutation limit> <container> <seed> <quad> | <quad> | …
  h <sha256|sha384> <hex data>

Replies: `st=ok out=<hex of canonical N-Quads>` or `st=unsupported|toxic.depth|toxic.perms|panic`,
`map=<hex label>:<n>,…` (sorted by label; only when the order of step 5.3 is pinned down),
`dg=<digest of out>`; with `withSpec` also `o.out=` from the transcription of the Recommendation.
-/
import SophiaModel.Basic.Proto
import SophiaModel.Model.Sha2
import SophiaModel.Model.Rdfc10
import SophiaModel.Model.Rdfc10Spec

namespace SophiaModel.Rdfc10Run
open SophiaModel Proto

def hashByName : String → Option (Str → Str)
  | "sha256" => some Sha2.sha256Hex
  | "sha384" => some Sha2.sha384Hex
  | _ => none

/-- `depth as f32 > depth_factor * n as f32` -/
def tooDeepF32 (df : Float32) (depth n : Nat) : Bool := decide (depth.toFloat32 > df * n.toFloat32)

def splitOnBar : List String → List (List String)
  | [] => [[]]
  | "|" :: rest => [] :: splitOnBar rest
  | t :: rest => match splitOnBar rest with
    | [] => [[t]]
    | g :: gs => (t :: g) :: gs

def parseQuads (toks : List String) : Option (List Quad) :=
  if toks.isEmpty then some [] else
  (splitOnBar toks).mapM (fun g => match Quad.parse g with
    | some (q, []) => some q
    | _ => none)

def parseHex32 (s : String) : Option UInt32 :=
  if s.length ≠ 8 then none else
  s.toList.foldlM (fun (acc : Nat) c => (hexVal c).map (acc * 16 + ·)) 0 |>.map UInt32.ofNat

def errName : Rdfc10.Err → String
  | .unsupported => "unsupported"
  | .hnd .depth => "toxic.depth"
  | .hnd .perms => "toxic.perms"
  | .hnd .panic => "panic"
  | .hnd .fuel => "fuel"
  | .panic => "panic6"

def hexStr (s : Str) : String := hexOfChars s

/-- `c14n<N>` → `<N>` -/
def mapField (m : Rdfc10.SMap Str) : String :=
  if m.isEmpty then "_" else
  ",".intercalate (m.map fun (b, c) => hexStr b ++ ":" ++ String.ofList (c.drop 4))

/-- blank node labels among the components of a quad (with repetition) -/
def bnodeLabelsOf (q : Quad) : List Str :=
  (Rdfc10.components q).filterMap (fun c => match c.1 with | .bnode b => some b | _ => none)

/-- the dataset is within the documented limits *whatever the traversal* (`Rdfc10.withinLimits` on the
`b2q` map of step 2; `false` when step 2 rejects the dataset) -/
def withinLimits (tooDeep : Nat → Nat → Bool) (permLimit : Nat) (quads : List Quad) : Bool :=
  match Rdfc10.step2 quads with
  | .ok b2q => Rdfc10.withinLimits tooDeep permLimit b2q
  | .error _ => false

def hasSelfRef (quads : List Quad) : Bool :=
  quads.any (fun q => let ls := bnodeLabelsOf q; ls.eraseDups.length != ls.length)

/-- the transcription of the Recommendation gives different documents when every tie of step 5.3 is
resolved the other way round (`canonicalNQuadsRevTies`) or when the dataset is enumerated backwards: the Recommendation leaves the order of ties (step 5.3 "ordered by hash",
permutations with equal paths) open, and on this dataset a tie occurs between blank nodes that are
NOT exchanged by an automorphism (known finding C05-rdfc10-ambiguous-tie: e.g. nodes that differ only
in WHICH IRI-named graph links them to which neighbour — Hash Related Blank Node ignores the graph
name of the quad).  On such datasets RDFC-1.0 does not determine the output. -/
def specAmbiguous (H : Str → Str) (quads : List Quad) (a? : Option Str) : Bool :=
  match a? with
  | none => false
  | some a =>
    (match Rdfc10Spec.canonicalNQuadsRevTies H quads with | some b => a != b | none => false) ||
    (match Rdfc10Spec.canonicalNQuads H quads.reverse with | some c => a != c | none => false)

/-- oracle fields of C06 (`out?` = what the model of the implementation produced, if it succeeded).
 * `o.out` = canonical N-Quads per the transcription of the Recommendation (`Deviations.none`), emitted
   whenever the transcription is defined — also when the model fails.  Not emitted for datasets with a
   quad mentioning one blank node twice when the two readings of step 2.1 differ (there the
   implementation is compared with its model only; `x.reading` says which reading the model follows).
 * `o.st=ok` — "fails only with an explicit error for a limit actually exceeded": emitted when the
   transcription succeeds and the dataset is statically within the configured limits (`withinLimits`).
 * `x.len=1`: a divergence disappears when the transcription is given the length-first skip rule
   (attribution for the former finding C06-smaller-path-length-first). -/
def specFields (H : Str → Str) (tooDeep : Nat → Nat → Bool) (permLimit : Nat) (quads : List Quad)
    (out? : Option Str) (a? : Option Str) (amb : Bool) : List String :=
  match a? with
  | none => []
  | some a =>
    let st := if withinLimits tooDeep permLimit quads then [kv "o.st" "ok"] else []
    let outF :=
      if amb then [kv "x.spec" "ambiguous"] else
      if !hasSelfRef quads then
        match out? with
        | some out =>
          if a = out then [kv "o.out" (hexStr a), kv "x.reading" "both"] else
          let c := (Rdfc10Spec.canonicalNQuadsWith ⟨false, true⟩ H quads).getD []
          [kv "o.out" (hexStr a), kvB "x.len" (c = out)]
        | none => [kv "o.out" (hexStr a)]
      else
        let b := (Rdfc10Spec.canonicalNQuadsWith ⟨true, false⟩ H quads).getD []
        if a = b then [kv "o.out" (hexStr a), kv "x.reading" "same"] else
        match out? with
        | some out => [kv "x.reading" (if out = b then "occurrence" else if out = a then "node" else "neither")]
        | none => []
    st ++ outF

def handle (withSpec : Bool) (line : String) : String :=
  match fields line with
  | "h" :: hn :: [hx] =>
    match hashByName hn, stringOfHex hx with
    | some H, some s => reply [kv "h" (String.ofList (H s.toList))]
    | _, _ => "bad-op"
  | "n" :: hn :: dfb :: pl :: cont :: _seed :: rest =>
    match hashByName hn, parseHex32 dfb, pl.toNat?, parseQuads rest with
    | some H, some bits, some permLimit, some quads =>
      let df := Float32.ofBits bits
      let a? := Rdfc10Spec.canonicalNQuads H quads
      let amb := specAmbiguous H quads a?
      let ambF := if amb then [kv "x.amb" "1"] else []
      match Rdfc10.relabelWith H (tooDeepF32 df) permLimit quads with
      | .error e =>
        reply ([kv "st" (errName e)] ++ ambF ++ (if withSpec then specFields H (tooDeepF32 df) permLimit quads none a? amb else []))
      | .ok (rq, idmap) =>
        let out := Rdfc10.serialize (Rdfc10.sortQuads rq)
        let pinned := (Rdfc10.groupSizes H quads).all (· ≤ 20)
        -- on a dataset where RDFC-1.0 itself is ambiguous the bytes depend on the enumeration order, which the
        -- model only knows for the order-preserving container: elsewhere `out` is informational (`out_amb`)
        let comparable := !amb || cont == "ord"
        let base := [kv "st" "ok", kv (if comparable then "out" else "out_amb") (hexStr out)] ++
          (if pinned then [kv "map" (mapField idmap)] else []) ++
          (if comparable then [kv "dg" (String.ofList (H out))] else []) ++ ambF
        let spec := if withSpec then specFields H (tooDeepF32 df) permLimit quads (some out) a? amb else []
        reply (base ++ spec)
    | _, _, _, _ => "bad-op"
  | _ => "bad-op"

end SophiaModel.Rdfc10Run
