/-
Request handling shared by the C05 and C06 drivers (kept outside `Driver/` because every module
there becomes an executable).

  n <sha256|sha384> <depth factor: f32 bits, 8 hex digits> <permutation limit> <container> <seed> <quad> | <quad> | …
  h <sha256|sha384> <hex data>

Replies: `st=ok out=<hex of canonical N-Quads>` or `st=unsupported|toxic.depth|toxic.perms|panic`,
`map=<hex label>:<n>,…` (sorted by label; only when the order of step 5.3 is pinned down),
`dg=<digest of out>`; with `withSpec` also `o.out=` from the transcription of the Recommendation.
-/
import SophiaModel.Basic.Proto
import SophiaModel.Model.Sha2
import SophiaModel.Model.Rdfc10
import SophiaModel.Model.Rdfc10Spec

namespace SophiaModel.Rdfc10Run
open SophiaModel Proto

def hashByName : String → Option (Str → Str)
  | "sha256" => some Sha2.sha256Hex
  | "sha384" => some Sha2.sha384Hex
  | _ => none

/-- `depth as f32 > depth_factor * n as f32` -/
def tooDeepF32 (df : Float32) (depth n : Nat) : Bool := decide (depth.toFloat32 > df * n.toFloat32)

def splitOnBar : List String → List (List String)
  | [] => [[]]
  | "|" :: rest => [] :: splitOnBar rest
  | t :: rest => match splitOnBar rest with
    | [] => [[t]]
    | g :: gs => (t :: g) :: gs

def parseQuads (toks : List String) : Option (List Quad) :=
  if toks.isEmpty then some [] else
  (splitOnBar toks).mapM (fun g => match Quad.parse g with
    | some (q, []) => some q
    | _ => none)

def parseHex32 (s : String) : Option UInt32 :=
  if s.length ≠ 8 then none else
  s.toList.foldlM (fun (acc : Nat) c => (hexVal c).map (acc * 16 + ·)) 0 |>.map UInt32.ofNat

def errName : Rdfc10.Err → String
  | .unsupported => "unsupported"
  | .hnd .depth => "toxic.depth"
  | .hnd .perms => "toxic.perms"
  | .hnd .panic => "panic"
  | .hnd .fuel => "fuel"
  | .panic => "panic6"

def hexStr (s : Str) : String := hexOfChars s

/-- `c14n<N>` → `<N>` -/
def mapField (m : Rdfc10.SMap Str) : String :=
  if m.isEmpty then "_" else
  ",".intercalate (m.map fun (b, c) => hexStr b ++ ":" ++ String.ofList (c.drop 4))

/-- oracle fields of C06.  `o.out` = the Recommendation (`Deviations.none`); where the two readings
of step 2.1 give different results and the implementation model follows the per-occurrence
reading, that reading's result is accepted instead (`x.reading=occurrence`).  `x.len=1`: the
divergence disappears when the transcription is given the implementation's skip rule — used by the
known-finding predicate to attribute it to `smaller_path`. -/
def specFields (H : Str → Str) (quads : List Quad) (out : Str) : List String :=
  match Rdfc10Spec.canonicalNQuads H quads with
  | none => []
  | some a =>
    if a = out then [kv "o.out" (hexStr a), kv "x.reading" "both"] else
    let b := (Rdfc10Spec.canonicalNQuadsWith ⟨true, false⟩ H quads).getD []
    if b = out then [kv "o.out" (hexStr b), kv "x.reading" "occurrence"] else
    let c := (Rdfc10Spec.canonicalNQuadsWith ⟨false, true⟩ H quads).getD []
    let d := (Rdfc10Spec.canonicalNQuadsWith ⟨true, true⟩ H quads).getD []
    [kv "o.out" (hexStr a), kvB "x.len" (c = out || d = out)]

def handle (withSpec : Bool) (line : String) : String :=
  match fields line with
  | "h" :: hn :: [hx] =>
    match hashByName hn, stringOfHex hx with
    | some H, some s => reply [kv "h" (String.ofList (H s.toList))]
    | _, _ => "bad-op"
  | "n" :: hn :: dfb :: pl :: _cont :: _seed :: rest =>
    match hashByName hn, parseHex32 dfb, pl.toNat?, parseQuads rest with
    | some H, some bits, some permLimit, some quads =>
      let df := Float32.ofBits bits
      match Rdfc10.relabelWith H (tooDeepF32 df) permLimit quads with
      | .error e => reply [kv "st" (errName e)]
      | .ok (rq, idmap) =>
        let out := Rdfc10.serialize (Rdfc10.sortQuads rq)
        let pinned := (Rdfc10.groupSizes H quads).all (· ≤ 20)
        let base := [kv "st" "ok", kv "out" (hexStr out)] ++ (if pinned then [kv "map" (mapField idmap)] else []) ++
          [kv "dg" (String.ofList (H out))]
        let spec := if withSpec then specFields H quads out else []
        reply (base ++ spec)
    | _, _, _, _ => "bad-op"
  | _ => "bad-op"

end SophiaModel.Rdfc10Run
