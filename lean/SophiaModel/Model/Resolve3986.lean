/-
RFC 3986 §5.2 reference resolution (transform, merge, remove_dot_segments) and §5.3
recomposition, over the five-component split of Appendix B.  Strings are `List Char`.
-/
import SophiaModel.Basic.Term

namespace SophiaModel.Rfc3986

structure Parts where
  scheme : Option Str
  authority : Option Str
  path : Str
  query : Option Str
  fragment : Option Str
  deriving Repr, DecidableEq, Inhabited

/-- longest prefix of characters not in `stops`, and the rest -/
def spanNot (stops : List Char) : Str → Str × Str
  | [] => ([], [])
  | c :: cs => if stops.contains c then ([], c :: cs) else
      let (a, b) := spanNot stops cs
      (c :: a, b)

theorem spanNot_append (stops : List Char) (s : Str) : (spanNot stops s).1 ++ (spanNot stops s).2 = s := by
  induction s with
  | nil => rfl
  | cons c cs ih =>
    unfold spanNot
    split
    · rfl
    · simp [ih]

/-- Appendix B: `^(([^:/?#]+):)?(//([^/?#]*))?([^?#]*)(\?([^#]*))?(#(.*))?` -/
def split (s : Str) : Parts :=
  let (pre, rest) := spanNot [':', '/', '?', '#'] s
  let (scheme, s1) : Option Str × Str :=
    match pre, rest with
    | _ :: _, ':' :: r => (some pre, r)
    | _, _ => (none, s)
  let (authority, s2) : Option Str × Str :=
    match s1 with
    | '/' :: '/' :: r => let (a, r') := spanNot ['/', '?', '#'] r; (some a, r')
    | _ => (none, s1)
  let (path, s3) := spanNot ['?', '#'] s2
  let (query, s4) : Option Str × Str :=
    match s3 with
    | '?' :: r => let (q, r') := spanNot ['#'] r; (some q, r')
    | _ => (none, s3)
  let fragment : Option Str :=
    match s4 with
    | '#' :: r => some r
    | _ => none
  { scheme, authority, path, query, fragment }

/-- §5.3 -/
def recompose (p : Parts) : Str :=
  (match p.scheme with | some s => s ++ [':'] | none => []) ++
  (match p.authority with | some a => ['/', '/'] ++ a | none => []) ++
  p.path ++
  (match p.query with | some q => '?' :: q | none => []) ++
  (match p.fragment with | some f => '#' :: f | none => [])

/-- remove the last segment of the output buffer and its preceding "/" (if any) -/
def dropLastSeg (out : Str) : Str :=
  -- out is kept *reversed*
  match (spanNot ['/'] out).2 with
  | [] => []
  | _ :: r => r

/-- §5.2.4, output buffer kept reversed; fuel = length of input + 1 -/
def rdsLoop : Nat → Str → Str → Str
  | 0, _, out => out.reverse
  | fuel + 1, inp, out =>
    match inp with
    | [] => out.reverse
    -- A
    | '.' :: '.' :: '/' :: r => rdsLoop fuel r out
    | '.' :: '/' :: r => rdsLoop fuel r out
    -- B
    | '/' :: '.' :: '/' :: r => rdsLoop fuel ('/' :: r) out
    | ['/', '.'] => rdsLoop fuel ['/'] out
    -- C
    | '/' :: '.' :: '.' :: '/' :: r => rdsLoop fuel ('/' :: r) (dropLastSeg out)
    | ['/', '.', '.'] => rdsLoop fuel ['/'] (dropLastSeg out)
    -- D
    | ['.'] => rdsLoop fuel [] out
    | ['.', '.'] => rdsLoop fuel [] out
    -- E: move first segment (with leading "/" if any) to the output
    | '/' :: r =>
      let (seg, rest) := spanNot ['/'] r
      rdsLoop fuel rest (seg.reverse ++ '/' :: out)
    | c :: r =>
      let (seg, rest) := spanNot ['/'] (c :: r)
      rdsLoop fuel rest (seg.reverse ++ out)

def removeDotSegments (p : Str) : Str := rdsLoop (p.length + 1) p []

/-- §5.2.3 -/
def merge (base : Parts) (rpath : Str) : Str :=
  if base.authority.isSome && base.path.isEmpty then '/' :: rpath
  else
    -- base path up to and including its last "/"
    let rev := base.path.reverse
    let keep := (spanNot ['/'] rev).2   -- reversed prefix ending with '/', or []
    keep.reverse ++ rpath

/-- §5.2.2 (strict) -/
def transform (b r : Parts) : Parts :=
  match r.scheme with
  | some s => { scheme := some s, authority := r.authority, path := removeDotSegments r.path,
                query := r.query, fragment := r.fragment }
  | none =>
    match r.authority with
    | some a => { scheme := b.scheme, authority := some a, path := removeDotSegments r.path,
                  query := r.query, fragment := r.fragment }
    | none =>
      if r.path.isEmpty then
        { scheme := b.scheme, authority := b.authority, path := b.path,
          query := (match r.query with | some q => some q | none => b.query), fragment := r.fragment }
      else
        let path := match r.path with
          | '/' :: _ => removeDotSegments r.path
          | _ => removeDotSegments (merge b r.path)
        { scheme := b.scheme, authority := b.authority, path, query := r.query, fragment := r.fragment }

def resolve (base ref : Str) : Str := recompose (transform (split base) (split ref))

end SophiaModel.Rfc3986
