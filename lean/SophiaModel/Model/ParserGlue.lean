/-
C08 — model of the error mapping of rio/src/parser.rs (`StrictRioTripleSource`, `StrictRioQuadSource`,
`GeneralizedRioSource`: the three `try_for_some_item` bodies are the same code).

The back-end parser is abstracted as a script: each `parse_step` hands some statements to the
callback and then returns `Ok(())` or its own error; `is_end()` holds when the script is exhausted.
The callback (the caller's closure `f`) may fail on one given statement.  Outcomes are the values of
`StreamResult<bool, _, _>`, plus an explicit `panic` outcome that the code must never produce.
-/
namespace SophiaModel.ParserGlue

structure Step where
  items : Nat
  fails : Bool
  deriving Repr, DecidableEq

inductive Out where
  | okTrue | okFalse | sourceErr | sinkErr | panic
  deriving Repr, DecidableEq

structure St where
  script : List Step
  delivered : Nat
  deriving Repr

/-- `try_for_some_item`:
```
if parser.is_end() { return Ok(false); }
parser.parse_step(&mut |t| f(Trusted(t)).map_err(RioStreamError::Sink))   // parser errors become
      .map_err(StreamError::from)                                        // RioStreamError::Source via `?`
      .and(Ok(true))
```
`sinkFailAt = some k`: `f` fails on the statement number `k` (0-based, counted over the whole run);
Rio's parsers propagate a callback error with `?`, abandoning the rest of the step. -/
def trySome (sinkFailAt : Option Nat) (s : St) : Out × St :=
  match s.script with
  | [] => (.okFalse, s)
  | st :: rest =>
    let sinkHit : Option Nat :=
      match sinkFailAt with
      | some k => if s.delivered ≤ k ∧ k < s.delivered + st.items then some k else none
      | none => none
    match sinkHit with
    | some k => (.sinkErr, ⟨rest, k + 1⟩)
    | none =>
      let s' : St := ⟨rest, s.delivered + st.items⟩
      if st.fails then (.sourceErr, s') else (.okTrue, s')

/-- the harness keeps calling `try_for_some_item`, `n` times, whatever it returns -/
def run (sinkFailAt : Option Nat) : Nat → St → List Out
  | 0, _ => []
  | n + 1, s => let (o, s') := trySome sinkFailAt s; o :: run sinkFailAt n s'

/-! ## jsonld/src/parser/source.rs `JsonLdQuadSource`

```
Quads(quads) => if let Some(quad) = quads.next() { f(quad).map(|()| true).map_err(SinkError) } else { Ok(false) }
Err(opt)     => if let Some(err) = opt.take() { Err(SourceError(err)) } else { Ok(false) }
```
The parser has finished before the source exists: either all quads (handed out one per call; a callback
failure consumes its quad) or one error, reported once. -/
inductive JsonSrc where
  /-- `left` quads still in the iterator, `delivered` handed to the callback so far -/
  | quads (left delivered : Nat)
  /-- `pending`: the error has not been taken yet -/
  | err (pending : Bool)
  deriving Repr, DecidableEq

def jsonTry (sinkFailAt : Option Nat) : JsonSrc → Out × JsonSrc
  | .quads 0 d => (.okFalse, .quads 0 d)
  | .quads (n + 1) d => (if sinkFailAt = some d then .sinkErr else .okTrue, .quads n (d + 1))
  | .err true => (.sourceErr, .err false)
  | .err false => (.okFalse, .err false)

def jsonRun (sinkFailAt : Option Nat) : Nat → JsonSrc → List Out
  | 0, _ => []
  | n + 1, s => let (o, s') := jsonTry sinkFailAt s; o :: jsonRun sinkFailAt n s'

def Out.letter : Out → Char
  | .okTrue => 'T' | .okFalse => 'F' | .sourceErr => 'S' | .sinkErr => 'K' | .panic => 'P'

end SophiaModel.ParserGlue
