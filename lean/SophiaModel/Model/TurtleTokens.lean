/-
Terminals of the W3C Turtle grammar (RDF 1.1 Turtle, section 6.5 "Grammar", productions
[19]-[22], [133s], [139s]-[141s], [144s], [163s]-[172s]) transcribed as `Re` over code points.
These are the *reader's* side of C04: what a conforming parser accepts as one token, and
which datatype it assigns to a bare numeric/boolean token.
-/
import SophiaModel.Regex.Comb

namespace SophiaModel.TurtleTokens
open SophiaModel Re

def digit : Re := rng '0' '9'
def sign : Re := opt (oneOf "+-")

/-- [19] INTEGER ::= [+-]? [0-9]+  (re-read as xsd:integer) -/
def INTEGER : Re := seqs [sign, plus digit]

/-- [20] DECIMAL ::= [+-]? [0-9]* '.' [0-9]+  (re-read as xsd:decimal) -/
def DECIMAL : Re := seqs [sign, .star digit, chr '.', plus digit]

/-- [154s] EXPONENT ::= [eE] [+-]? [0-9]+ -/
def EXPONENT : Re := seqs [oneOf "eE", sign, plus digit]

/-- [21] DOUBLE ::= [+-]? ([0-9]+ '.' [0-9]* EXPONENT | '.' [0-9]+ EXPONENT | [0-9]+ EXPONENT)
(re-read as xsd:double) -/
def DOUBLE : Re :=
  seqs [sign, alts [seqs [plus digit, chr '.', .star digit, EXPONENT],
                    seqs [chr '.', plus digit, EXPONENT],
                    seqs [plus digit, EXPONENT]]]

/-- [133s] BooleanLiteral ::= 'true' | 'false'  (re-read as xsd:boolean) -/
def BOOLEAN : Re := alts [lit "true", lit "false"]

/-- [163s] PN_CHARS_BASE -/
def pnCharsBaseRanges : List (Nat × Nat) :=
  [(0x41, 0x5A), (0x61, 0x7A), (0xC0, 0xD6), (0xD8, 0xF6), (0xF8, 0x2FF), (0x370, 0x37D),
   (0x37F, 0x1FFF), (0x200C, 0x200D), (0x2070, 0x218F), (0x2C00, 0x2FEF), (0x3001, 0xD7FF),
   (0xF900, 0xFDCF), (0xFDF0, 0xFFFD), (0x10000, 0xEFFFF)]
def PN_CHARS_BASE : Re := .cls pnCharsBaseRanges
/-- [164s] PN_CHARS_U ::= PN_CHARS_BASE | '_' -/
def PN_CHARS_U : Re := .cls (pnCharsBaseRanges ++ [(0x5F, 0x5F)])
/-- [166s] PN_CHARS ::= PN_CHARS_U | '-' | [0-9] | #x00B7 | [#x0300-#x036F] | [#x203F-#x2040] -/
def pnCharsRanges : List (Nat × Nat) :=
  pnCharsBaseRanges ++ [(0x5F, 0x5F), (0x2D, 0x2D), (0x30, 0x39), (0xB7, 0xB7), (0x300, 0x36F), (0x203F, 0x2040)]
def PN_CHARS : Re := .cls pnCharsRanges

/-- [167s] PN_PREFIX ::= PN_CHARS_BASE ((PN_CHARS | '.')* PN_CHARS)? -/
def PN_PREFIX : Re :=
  seqs [PN_CHARS_BASE, opt (seqs [.star (.cls (pnCharsRanges ++ [(0x2E, 0x2E)])), PN_CHARS])]

def HEX : Re := .cls [(0x30, 0x39), (0x41, 0x46), (0x61, 0x66)]
/-- [170s] PERCENT ::= '%' HEX HEX -/
def PERCENT : Re := seqs [chr '%', HEX, HEX]
/-- [172s] PN_LOCAL_ESC ::= '\' ('_' | '~' | '.' | '-' | '!' | '$' | '&' | "'" | '(' | ')' | '*' | '+' | ',' | ';' | '=' | '/' | '?' | '#' | '@' | '%') -/
def PN_LOCAL_ESC : Re := seqs [chr '\\', oneOf "_~.-!$&'()*+,;=/?#@%"]
/-- [169s] PLX ::= PERCENT | PN_LOCAL_ESC -/
def PLX : Re := alts [PERCENT, PN_LOCAL_ESC]

/-- [168s] PN_LOCAL ::= (PN_CHARS_U | ':' | [0-9] | PLX) ((PN_CHARS | '.' | ':' | PLX)* (PN_CHARS | ':' | PLX))? -/
def PN_LOCAL : Re :=
  seqs [alts [.cls (pnCharsBaseRanges ++ [(0x5F, 0x5F), (0x3A, 0x3A), (0x30, 0x39)]), PLX],
        opt (seqs [.star (alts [.cls (pnCharsRanges ++ [(0x2E, 0x2E), (0x3A, 0x3A)]), PLX]),
                   alts [.cls (pnCharsRanges ++ [(0x3A, 0x3A)]), PLX]])]

/-- label part of [141s] BLANK_NODE_LABEL ::= '_:' (PN_CHARS_U | [0-9]) ((PN_CHARS | '.')* PN_CHARS)? -/
def BNODE_LABEL : Re :=
  seqs [.cls (pnCharsBaseRanges ++ [(0x5F, 0x5F), (0x30, 0x39)]),
        opt (seqs [.star (.cls (pnCharsRanges ++ [(0x2E, 0x2E)])), PN_CHARS])]

/-- tag part of [144s] LANGTAG ::= '@' [a-zA-Z]+ ('-' [a-zA-Z0-9]+)* -/
def LANGTAG : Re :=
  seqs [plus (.cls [(0x41, 0x5A), (0x61, 0x7A)]),
        .star (seqs [chr '-', plus (.cls [(0x41, 0x5A), (0x61, 0x7A), (0x30, 0x39)])])]

/-- a string containing a backslash somewhere -/
def hasBackslash : Re := seqs [.star (.cls [(0, 0x10FFFF)]), chr '\\', .star (.cls [(0, 0x10FFFF)])]

end SophiaModel.TurtleTokens
