/-
Term / graph-name matchers of `api/src/term/matcher/*`, transcribed: `matches` and `constant`.
-/
import SophiaModel.Basic.TermOrder

namespace SophiaModel
open Term

/-- `GraphName<T>` = `Option<T>` -/
abbrev GName := Option Term

/-- `graph_name_eq` -/
def gnameEq : GName → GName → Bool
  | none, none => true
  | some a, some b => termEq a b
  | _, _ => false

/-- weight used by the closure-matcher family of the correspondence harness
(number of characters of every string component + number of term nodes) -/
def Term.weight : Term → Nat
  | .iri s => s.length + 1
  | .bnode s => s.length + 1
  | .var s => s.length + 1
  | .lit l d => l.length + d.length + 1
  | .lang l t => l.length + t.length + 1
  | .triple s p o => s.weight + p.weight + o.weight + 1

/-- `TermMatcher` implementations -/
inductive TM where
  | any                                 -- `Any`
  | opt (o : Option Term)               -- `Option<T>`
  | arr (ts : List Term)                -- `[T; N]` and `&[T]`
  | kind (k : Kind)                     -- `TermKind`
  | not (m : TM)                        -- `Not<M>`
  | dt (dtIri : Str)                    -- `DatatypeMatcher`
  | lang (tag : Str)                    -- `LanguageTagMatcher`
  | tri (s p o : TM)                    -- `(S, P, O)`
  | fn (par : Nat)                      -- closure: weight % 2 == par
  deriving Repr, Inhabited

def TM.matches : TM → Term → Bool
  | .any, _ => true
  | .opt none, _ => false
  | .opt (some m), t => termEq m t
  | .arr ts, t => ts.any (fun m => termEq m t)
  | .kind k, t => t.kind == k
  | .not m, t => !(m.matches t)
  | .dt dtIri, t => match t.datatype with
    | some d => d == dtIri
    | none => false
  | .lang tag, t => match t with
    | .lang _ tg => tagEq tg tag
    | _ => false
  | .tri sm pm om, t => match t with
    | .triple s p o => sm.matches s && pm.matches p && om.matches o
    | _ => false
  | .fn par, t => t.weight % 2 == par

/-- `TermMatcher::constant` -/
def TM.constant : TM → Option Term
  | .opt o => o
  | .arr [t] => some t
  | _ => none

/-- `GraphNameMatcher` implementations -/
inductive GM where
  | any
  | opt (o : Option GName)              -- `Option<Option<T>>`
  | arr (gs : List GName)               -- `[GraphName<T>; N]` and `&[GraphName<T>]`
  | kind (k : Option Kind)              -- `Option<TermKind>`
  | not (m : GM)
  | tri (o : Option (TM × TM × TM))     -- `Option<(S, P, O)>`
  | fn (par : Nat)                      -- closure: (weight, default graph = 0) % 2 == par
  | gn (m : TM)                         -- `TermMatcherGn<M>` = `m.gn()`
  deriving Repr, Inhabited

def GM.matches : GM → GName → Bool
  | .any, _ => true
  | .opt none, _ => false
  | .opt (some m), g => gnameEq m g
  | .arr gs, g => gs.any (fun m => gnameEq m g)
  | .kind k, g => g.map Term.kind == k
  | .not m, g => !(m.matches g)
  | .tri none, g => g.isNone
  | .tri (some (sm, pm, om)), g => match g with
    | some (.triple s p o) => sm.matches s && pm.matches p && om.matches o
    | _ => false
  | .fn par, g => (match g with | none => 0 | some t => t.weight) % 2 == par
  | .gn m, g => match g with
    | some t => m.matches t
    | none => false

/-- `GraphNameMatcher::constant` -/
def GM.constant : GM → Option GName
  | .opt o => o
  | .arr [g] => some g
  | .gn m => m.constant.map some
  | _ => none

end SophiaModel
