/-
Model of the JSON-LD serializer engine `jsonld/src/serializer/engine.rs` (with
`serializer/rdf_object.rs` and `util_traits.rs`), function by function, and of a reader for
the documents it produces (Deserialize-JSON-LD-to-RDF specialised to expanded, flattened
documents without context).

Data.  `HashMap`s are association lists in insertion order (only `contains_key`, `get`,
`len`, index and iteration are used; iteration order is unspecified in Rust and the protocol
sorts object keys, so any order is a faithful one).  `index : HashMap<(g_id, s_id), usize>` is
the inverse of `gs_id : Vec<(g_id, s_id)>`, so it is modelled by searching `gsId`.
Ids are the strings `as_id` yields: the IRI itself, or `"_:" ++ label` for a blank node; the
default graph is `" "`.

Keys *as in the source*: `unique_parent` and `list_node` are keyed by the blank node's id only
(no graph), `compound_literals` by slot, `index` by (graph id, node id).

Partial functions of the source are explicit outcomes (`Fail.panic`):
  * `self.unique_parent[s_id]`      (`mark_list_node`: `HashMap` `Index` panics on an absent key; which of
                                     `[..]` / `.get(..)` the source uses is read from the source:
                                     `Gen.JsonLdFlags.uniqueParentGet`),
  * `&id[..2]`                      (`convert_rdf_object`: str slicing panics when 2 is beyond the
                                     end or not a char boundary),
  * `map[RDF_FIRST][0]`, `map[RDF_REST][0]` (`populate_list`), `node[RDF_VALUE][0]` ... (compound literals),
  * `unreachable!()` in `make_node_object`.
`Fail.fuel` = the model's recursion budget ran out (the Rust recursion would not terminate or
is deeper than the number of slots allows); never produced on any input seen, and impossible
for `mark_list_node` (see the note there).

Not modelled: `use_native_types` (excluded by the property), the JSON *text* printer
(`spaces`), validation of `rdf:JSON` lexical forms (`JsonValue::parse_str(txt)?` — the lexical
form is kept as opaque text: assumption "rdf:JSON literals are valid JSON").
-/
import SophiaModel.Basic.Term
import SophiaModel.Gen.JsonLdFlags

namespace SophiaModel.JsonLd
open SophiaModel

abbrev Id := Str

/-! ### constants of engine.rs -/
def rdfNs : Str := "http://www.w3.org/1999/02/22-rdf-syntax-ns#".toList
def rdfFirst : Str := rdfNs ++ "first".toList
def rdfRest : Str := rdfNs ++ "rest".toList
def rdfNil : Str := rdfNs ++ "nil".toList
def rdfType : Str := rdfNs ++ "type".toList
def rdfList : Str := rdfNs ++ "List".toList
def rdfJson : Str := rdfNs ++ "JSON".toList
def rdfValue : Str := rdfNs ++ "value".toList
def rdfDirection : Str := rdfNs ++ "direction".toList
def rdfLanguage : Str := rdfNs ++ "language".toList
def xsdString : Str := "http://www.w3.org/2001/XMLSchema#string".toList
def nsI18n : Str := "https://www.w3.org/ns/i18n#".toList
def kType : Str := "@type".toList
def kGraph : Str := "@graph".toList
/-- `" "`: the graph id of the default graph -/
def dflt : Id := [' ']

/-! ### options -/
inductive Mode | v10 | v11
  deriving DecidableEq, Repr, Inhabited

/-- `rdf_direction()` -/
inductive Dir | none | i18n | compound
  deriving DecidableEq, Repr, Inhabited

structure Opts where
  mode : Mode := .v11
  useRdfType : Bool := false
  dir : Dir := .none
  deriving DecidableEq, Repr, Inhabited

/-! ### util_traits.rs -/

/-- `is_subject` -/
def isSubject : Term → Bool
  | .iri _ => true | .bnode _ => true | _ => false
/-- `is_object` -/
def isObject : Term → Bool
  | .iri _ => true | .bnode _ => true | .lit _ _ => true | .lang _ _ => true | _ => false
def isIri : Term → Bool
  | .iri _ => true | _ => false
def isBnode : Term → Bool
  | .bnode _ => true | _ => false
def isLiteral : Term → Bool
  | .lit _ _ => true | .lang _ _ => true | _ => false

/-- `is_jsonld` -/
def isJsonLd (q : Quad) : Bool :=
  isSubject q.s && isIri q.p && isObject q.o &&
    (match q.g with | none => true | some g => isSubject g)

/-- `as_id` (its `panic!("not a subject term")` branch is never reached: every call is on the
subject, predicate, non-literal object or graph name of a quad that passed `is_jsonld`; the
model returns the empty id there) -/
def asId : Term → Id
  | .iri s => s
  | .bnode b => '_' :: ':' :: b
  | _ => []

/-- `Term == rdf::xxx` for an IRI constant -/
def isIriC (c : Str) : Term → Bool
  | .iri s => s == c
  | _ => false

/-! ### rdf_object.rs -/
inductive RdfObject where
  | langString (lex tag : Str)
  | typed (lex dt : Str)
  | node (idx : Nat) (id : Id)
  deriving DecidableEq, Repr, Inhabited

namespace RdfObject
def isLiteral : RdfObject → Bool
  | .node _ _ => false | _ => true
def isNode : RdfObject → Bool
  | .node _ _ => true | _ => false
/-- `id.starts_with("_:")` -/
def startsBn : Id → Bool
  | '_' :: ':' :: _ => true
  | _ => false
def isIri : RdfObject → Bool
  | .node _ id => !startsBn id
  | _ => false
def eqNode (o : RdfObject) (other : Id) : Bool :=
  match o with
  | .node _ id => id == other
  | _ => false
def asStr : RdfObject → Str
  | .langString l _ => l
  | .typed l _ => l
  | .node _ id => id
end RdfObject
open RdfObject (startsBn)

/-! ### the engine state -/

/-- `HashMap<Box<str>, Vec<RdfObject>>` -/
abbrev NodeMap := List (Id × List RdfObject)

/-- `HashMap::get` -/
def lookup {β : Type} (k : Id) : List (Id × β) → Option β
  | [] => none
  | (k', v) :: rest => if k' == k then some v else lookup k rest

/-- `HashMap::insert` (replace or append) -/
def insert {β : Type} (k : Id) (v : β) : List (Id × β) → List (Id × β)
  | [] => [(k, v)]
  | (k', v') :: rest => if k' == k then (k', v) :: rest else (k', v') :: insert k v rest

/-- `VecUtil::push_if_new` -/
def vecPushIfNew {α : Type} [BEq α] (v : List α) (x : α) : List α :=
  if v.contains x then v else v ++ [x]

/-- `HashMapUtil::push_if_new` -/
def mapPushIfNew (k : Id) (x : RdfObject) : NodeMap → NodeMap
  | [] => [(k, [x])]
  | (k', vs) :: rest =>
    if k' == k then (k', vecPushIfNew vs x) :: rest else (k', vs) :: mapPushIfNew k x rest

structure Engine where
  /-- `gs_id` (and, read backwards, `index`) -/
  gsId : List (Id × Id) := []
  /-- `node` -/
  node : List NodeMap := []
  /-- `unique_parent`, keyed by the object's id only -/
  uniqueParent : List (Id × Option (Nat × Id)) := []
  listSeeds : List Nat := []
  /-- `list_node`, keyed by the node's id only -/
  listNode : List (Id × Nat) := []
  /-- `compound_literals` (slots) -/
  compound : List Nat := []
  deriving Repr, Inhabited

/-- position of a slot in `gs_id` = `index.get(&(g, s))` -/
def findSlot (g s : Id) : List (Id × Id) → Nat → Option Nat
  | [], _ => none
  | (g', s') :: rest, i => if g' == g && s' == s then some i else findSlot g s rest (i + 1)

/-- `Engine::index`: the slot of (g, s), created (with an empty map) when new -/
def Engine.index (E : Engine) (g s : Id) : Engine × Nat :=
  match findSlot g s E.gsId 0 with
  | some i => (E, i)
  | none => ({ E with gsId := E.gsId ++ [(g, s)], node := E.node ++ [[]] }, E.gsId.length)

/-- `self.node[i].push_if_new(k, x)` -/
def Engine.push (E : Engine) (i : Nat) (k : Id) (x : RdfObject) : Engine :=
  { E with node := E.node.modify i (mapPushIfNew k x) }

/-- `make_rdf_object` -/
def Engine.makeRdfObject (E : Engine) (o : Term) (g : Id) : Engine × RdfObject :=
  match o with
  | .lit lex dt => (E, .typed lex dt)
  | .lang lex tag => (E, .langString lex tag)
  | t =>
    let oid := asId t
    let (E', i) := E.index g oid
    (E', .node i oid)

/-- the `entry(..).and_modify(..).or_insert_with(..)` on `unique_parent` -/
def updParent (k : Id) (parent : Nat × Id) : List (Id × Option (Nat × Id)) → List (Id × Option (Nat × Id))
  | [] => [(k, some parent)]
  | (k', v) :: rest =>
    if k' == k then
      (k', match v with
           | some p => if p != parent then none else some p
           | none => none) :: rest
    else (k', v) :: updParent k parent rest

/-- graph id of a quad: `q.g().map_or_else(|| Box::from(" "), |g| g.as_id())` -/
def graphId (q : Quad) : Id := match q.g with | none => dflt | some g => asId g

/-- the engine after `let is = self.index(g_id, s_id)` and the `@graph` link -/
def linkGraph (E : Engine) (q : Quad) : Engine × Nat :=
  let r1 := E.index (graphId q) (asId q.s)
  match q.g with
  | none => r1
  | some _ =>
    let r2 := r1.1.index dflt (graphId q)
    (r2.1.push r2.2 kGraph (.node r1.2 (asId q.s)), r1.2)

/-- key under which the object is filed: `@type` rule -/
def predKey (o : Opts) (q : Quad) (obj : RdfObject) : Id :=
  if isIriC rdfType q.p && obj.isIri && !o.useRdfType then kType else asId q.p

/-- the `list_seeds` / `compound_literals` bookkeeping -/
def noteSeed (o : Opts) (q : Quad) (is : Nat) (E : Engine) : Engine :=
  if isBnode q.s then
    if isIriC rdfRest q.p && isIriC rdfNil q.o then
      { E with listSeeds := vecPushIfNew E.listSeeds is }
    else if o.dir == .compound && isIriC rdfDirection q.p then
      { E with compound := vecPushIfNew E.compound is }
    else E
  else E

/-- the `unique_parent` bookkeeping -/
def noteParent (q : Quad) (is : Nat) (E : Engine) : Engine :=
  if isBnode q.o then
    { E with uniqueParent := updParent (asId q.o) (is, asId q.p) E.uniqueParent }
  else E

/-- body of the closure of `process_quads` for one quad, statement by statement -/
def processQuad (o : Opts) (E : Engine) (q : Quad) : Engine :=
  if !isJsonLd q then E else
  let r1 := linkGraph E q
  let r2 := r1.1.makeRdfObject q.o (graphId q)
  let E3 := r2.1.push r1.2 (predKey o q r2.2) r2.2
  noteParent q r1.2 (noteSeed o q r1.2 E3)

/-- `process_quads` (the `UnsupportedVersion` branch is unreachable: `ProcessingMode` has two values) -/
def processQuads (o : Opts) (D : List Quad) : Engine := D.foldl (processQuad o) {}

/-! ### into_json -/

inductive Fail | panic | fuel
  deriving DecidableEq, Repr, Inhabited

abbrev Res (α : Type) := Except Fail α

/-- number of values of a key, `None` when the key is absent -/
def keyLen (k : Id) (m : NodeMap) : Option Nat := (lookup k m).map List.length

/-- `is_list_node` -/
def isListNode (m : NodeMap) : Bool :=
  2 ≤ m.length && m.length ≤ 3
  && (match lookup rdfFirst m with | some v => v.length == 1 | none => false)
  && (match lookup rdfRest m with
      | some [x] => x.isNode
      | _ => false)
  && (m.length == 2
      || (match lookup kType m with
          | some [x] => x.eqNode rdfList
          | _ => false))

/-- `is_compound_literal` -/
def isCompoundLiteral (m : NodeMap) : Bool :=
  2 ≤ m.length && m.length ≤ 3
  && (match lookup rdfDirection m with | some [x] => x.isLiteral | _ => false)
  && (match lookup rdfValue m with | some [x] => x.isLiteral | _ => false)
  && (m.length == 2
      || (match lookup rdfLanguage m with | some [x] => x.isLiteral | _ => false))

/-- `mark_list_node`, threading `list_node`.  Fuel: the recursion follows `unique_parent`
links labelled `rdf:rest` from a list node to its parent inside one graph; a slot can be
reached twice only if it has two `rdf:rest` values or `rdf:rest rdf:nil` besides a blank one,
which `is_list_node` excludes, so `gsId.length + 1` calls always suffice. -/
def markListNode (o : Opts) (E : Engine) : Nat → Nat → List (Id × Nat) → Res (List (Id × Nat))
  | 0, _, _ => .error .fuel
  | fuel + 1, inode, ln =>
    match E.gsId[inode]? with
    | none => .error .panic                      -- `self.gs_id[inode]` (never out of range)
    | some (gId, sId) =>
      match lookup sId E.uniqueParent with
      | none =>
        -- shipped text `&self.unique_parent[s_id]`: key absent = panic; text of the proposed fix
        -- `self.unique_parent.get(s_id)`: key absent = no unique parent (switch regenerated from
        -- the source by tools/extractors/c12.py)
        if Gen.JsonLdFlags.uniqueParentGet then .ok ln else .error .panic
      | some none => .ok ln
      | some (some (iparent, pp)) =>
        if o.mode == .v10 && pp == rdfFirst then .ok ln else
        match E.gsId[iparent]? with
        | none => .error .panic
        | some (pgId, psId) =>
          if pgId == gId then
            if isListNode (E.node.getD inode []) then
              let ln := insert sId iparent ln
              if startsBn psId && pp == rdfRest then markListNode o E fuel iparent ln
              else .ok ln
            else .ok ln
          else .ok ln

/-- the loop over `list_seeds` -/
def markAll (o : Opts) (E : Engine) : List Nat → List (Id × Nat) → Res (List (Id × Nat))
  | [], ln => .ok ln
  | i :: rest, ln =>
    match markListNode o E (E.gsId.length + 1) i ln with
    | .ok ln' => markAll o E rest ln'
    | .error e => .error e

/-! ### the output: JSON restricted to expanded, flattened form -/

/-- what `convert_rdf_object` can produce -/
inductive Val where
  /-- `{"@id": id}` -/
  | ref (id : Str)
  /-- `{"@value": v, "@type"?: t, "@language"?: l, "@direction"?: d}` -/
  | lit (value : Str) (type lang dir : Option Str)
  /-- `{"@value": <the JSON value whose text is raw>, "@type": "@json"}` -/
  | json (raw : Str)
  /-- `{"@list": [...]}` -/
  | list (items : List Val)
  deriving Repr, Inhabited

/-- value of one key of a node object -/
inductive PVal where
  /-- `"@type": [ids]` -/
  | types (ids : List Str)
  | vals (vs : List Val)
  deriving Repr, Inhabited

/-- `{"@id": id, key: [...], ...}` -/
structure NodeObj where
  id : Str
  entries : List (Str × PVal)
  deriving Repr, Inhabited

/-- a top-level node object, with its `"@graph": [...]` entry if any -/
structure TopNode where
  node : NodeObj
  graph : Option (List NodeObj)
  deriving Repr, Inhabited

abbrev Doc := List TopNode

/-- `&id[..2]`: the first two *bytes* of the id, when byte 2 is a char boundary within the string
(`none` = the slice expression panics) -/
def prefix2 : Id → Option Str
  | [] => none
  | [c] => if c.toNat < 0x800 && 0x80 ≤ c.toNat then some [c] else none
  | c :: d :: _ =>
    if c.toNat < 0x80 then (if d.toNat < 0x80 then some [c, d] else none)
    else if c.toNat < 0x800 then some [c]
    else none

/-- split at the first `'_'`: `splitn(2, '_')` -/
def splitUnderscore : Str → Str × Option Str
  | [] => ([], none)
  | c :: cs =>
    if c == '_' then ([], some cs)
    else let (a, b) := splitUnderscore cs; (c :: a, b)

/-- `starts_with` -/
def startsWith : Str → Str → Bool
  | _, [] => true
  | [], _ :: _ => false
  | a :: as, b :: bs => a == b && startsWith as bs

/-- the literal branches of `convert_rdf_object` (`use_native_types` = false) -/
def convertLiteral (o : Opts) (lex dt : Str) : Val :=
  if o.dir == .i18n && startsWith dt nsI18n then
    let (tag, dir) := splitUnderscore (dt.drop nsI18n.length)
    .lit lex none (if tag.isEmpty then none else some tag)
      (match dir with | some d => if d.isEmpty then none else some d | none => none)
  else if dt == rdfJson then .json lex
  else .lit lex (if dt != xsdString then some dt else none) none none

/-- `map[k][0]` -/
def first0 (k : Id) (m : NodeMap) : Res RdfObject :=
  match lookup k m with
  | some (x :: _) => .ok x
  | _ => .error .panic

mutual
/-- `convert_rdf_object` -/
def convert (o : Opts) (E : Engine) : Nat → RdfObject → Res Val
  | _, .langString lex tag => .ok (.lit lex none (some tag) none)
  | _, .typed lex dt => .ok (convertLiteral o lex dt)
  | fuel, .node inode id =>
    if id == rdfNil then .ok (.list [])
    else match prefix2 id with
      | none => .error .panic                     -- `&id[..2]`
      | some p =>
        if p != ['_', ':'] then .ok (.ref id)
        else if (lookup id E.listNode).isSome then
          match fuel with
          | 0 => .error .fuel
          | fuel + 1 =>
            match populateList o E fuel inode with
            | .ok items => .ok (.list items)
            | .error e => .error e
        else if o.dir == .compound && E.compound.contains inode then
          let m := E.node.getD inode []
          match first0 rdfValue m, first0 rdfDirection m with
          | .ok v, .ok d =>
            .ok (.lit v.asStr none
                  (match lookup rdfLanguage m with
                   | some (t :: _) => some t.asStr
                   | some [] => none                 -- (`tags[0]` would panic; vectors are never empty)
                   | none => none)
                  (some d.asStr))
          | _, _ => .error .panic
        else .ok (.ref id)
/-- `populate_list` -/
def populateList (o : Opts) (E : Engine) : Nat → Nat → Res (List Val)
  | 0, _ => .error .fuel
  | fuel + 1, inode =>
    let m := E.node.getD inode []
    match first0 rdfFirst m with
    | .error e => .error e
    | .ok f =>
      match convert o E fuel f with
      | .error e => .error e
      | .ok v =>
        match first0 rdfRest m with
        | .error e => .error e
        | .ok (.node inext id) =>
          if id != rdfNil then
            match populateList o E fuel inext with
            | .ok tl => .ok (v :: tl)
            | .error e => .error e
          else .ok [v]
        | .ok _ => .ok [v]
end

/-- budget for `convert`/`populate_list`: two units per slot visited -/
def convFuel (E : Engine) : Nat := 2 * E.gsId.length + 2

def convertAll (o : Opts) (E : Engine) : List RdfObject → Res (List Val)
  | [] => .ok []
  | x :: xs =>
    match convert o E (convFuel E) x with
    | .error e => .error e
    | .ok v =>
      match convertAll o E xs with
      | .error e => .error e
      | .ok vs => .ok (v :: vs)

/-- the `@type` branch of `make_node_object` -/
def typeIds : List RdfObject → Res (List Str)
  | [] => .ok []
  | .node _ nid :: xs =>
    match typeIds xs with
    | .ok r => .ok (nid :: r)
    | .error e => .error e
  | _ :: _ => .error .panic                       -- `unreachable!()`

/-- the loop of `make_node_object` over the keys of the node -/
def makeEntries (o : Opts) (E : Engine) : NodeMap → Res (List (Str × PVal))
  | [] => .ok []
  | (k, vals) :: rest =>
    if k == kGraph then makeEntries o E rest
    else
      let here : Res PVal :=
        if k == kType then (match typeIds vals with | .ok t => .ok (.types t) | .error e => .error e)
        else (match convertAll o E vals with | .ok v => .ok (.vals v) | .error e => .error e)
      match here with
      | .error e => .error e
      | .ok pv =>
        match makeEntries o E rest with
        | .error e => .error e
        | .ok r => .ok ((k, pv) :: r)

/-- the three early returns of `jsonify` (`true` = the node is not rendered here) -/
def skipped (o : Opts) (E : Engine) (inode : Nat) (root : Bool) : Bool :=
  let m := E.node.getD inode []
  let (gId, sId) := E.gsId.getD inode ([], [])
  m.isEmpty
  || (root && gId != dflt)
  || ((lookup sId E.listNode).isSome || (o.dir == .compound && E.compound.contains inode))

/-- `jsonify(inode, node, false)`: a node inside `@graph` -/
def jsonifyInner (o : Opts) (E : Engine) (inode : Nat) : Res (Option NodeObj) :=
  if skipped o E inode false then .ok none else
  match makeEntries o E (E.node.getD inode []) with
  | .error e => .error e
  | .ok es => .ok (some ⟨(E.gsId.getD inode ([], [])).2, es⟩)

/-- the `filter_map` over the `@graph` values -/
def jsonifyGraph (o : Opts) (E : Engine) : List RdfObject → Res (List NodeObj)
  | [] => .ok []
  | .node i2 _ :: rest =>
    match jsonifyInner o E i2 with
    | .error e => .error e
    | .ok r =>
      match jsonifyGraph o E rest with
      | .error e => .error e
      | .ok rs => .ok (match r with | some n => n :: rs | none => rs)
  | _ :: rest => jsonifyGraph o E rest

/-- `jsonify(inode, node, true)` -/
def jsonifyRoot (o : Opts) (E : Engine) (inode : Nat) : Res (Option TopNode) :=
  if skipped o E inode true then .ok none else
  let m := E.node.getD inode []
  match makeEntries o E m with
  | .error e => .error e
  | .ok es =>
    let n : NodeObj := ⟨(E.gsId.getD inode ([], [])).2, es⟩
    match lookup kGraph m with
    | none => .ok (some ⟨n, none⟩)
    | some ng =>
      match jsonifyGraph o E ng with
      | .error e => .error e
      | .ok g => .ok (some ⟨n, some g⟩)

def jsonifyAll (o : Opts) (E : Engine) : List Nat → Res Doc
  | [] => .ok []
  | i :: rest =>
    match jsonifyRoot o E i with
    | .error e => .error e
    | .ok r =>
      match jsonifyAll o E rest with
      | .error e => .error e
      | .ok rs => .ok (match r with | some n => n :: rs | none => rs)

/-- `into_json` -/
def intoJson (o : Opts) (E : Engine) : Res Doc :=
  match markAll o E E.listSeeds [] with
  | .error e => .error e
  | .ok ln =>
    let E := { E with listSeeds := [], listNode := ln }
    let E := if o.dir == .compound then
        { E with compound := E.compound.filter (fun i => isCompoundLiteral (E.node.getD i [])) }
      else E
    jsonifyAll o E (List.range E.node.length)

/-- `convert_quads` -/
def serialize (o : Opts) (D : List Quad) : Res Doc := intoJson o (processQuads o D)

/-! ### reader: Deserialize JSON-LD to RDF on the documents above

The W3C algorithm specialised to expanded, flattened documents; where the parser actually used
(`json-ld` 0.15.1 behind `JsonLdParser`) deviates from the specification for base directions, the
reader mirrors the crate (see `valRdf`), so that its verdicts can be compared with the real round trip. -/

/-- subject / object / graph-name term of an id -/
def idTerm : Id → Term
  | '_' :: ':' :: b => .bnode b
  | s => .iri s

abbrev Triple := Term × Term × Term

/-- fresh cell label number `n`: longer than every label of the document (`base` is a run of
`'c'` longer than the longest id), hence distinct from all of them -/
def freshLabel (base : Str) (n : Nat) : Term := .bnode (base ++ (toString n).toList)

mutual
/-- object term of a value, the triples it needs besides (list cells), next fresh number -/
def valRdf (o : Opts) (base : Str) : Val → Nat → Term × List Triple × Nat
  | .ref id, n => (idTerm id, [], n)
  | .json raw, n => (.lit raw rdfJson, [], n)
  | .lit v ty lang dir, n =>
    match o.dir, dir with
    | .i18n, some d =>
      -- json-ld-core 0.15.1 `rdf.rs::i18n`: `…i18n#{language}_{direction}`, but `…i18n#{direction}`
      -- (no underscore, unlike the specification) when there is no language
      (.lit v (match lang with
               | some l => nsI18n ++ l ++ ('_' :: d)
               | none => nsI18n ++ d), [], n)
    | .compound, some _ =>
      -- json-ld-core 0.15.1: a fresh blank node and *no* rdf:value / rdf:direction / rdf:language
      -- triples (`CompoundLiteral { value: id, triples: None }`)
      (freshLabel base n, [], n + 1)
    | _, _ =>
      match lang, ty with
      | some l, _ => (.lang v l, [], n)
      | none, some t => (.lit v t, [], n)
      | none, none => (.lit v xsdString, [], n)
  | .list items, n => listRdf o base items n
/-- List to RDF conversion: `rdf:nil` for the empty list, else a chain of fresh cells -/
def listRdf (o : Opts) (base : Str) : List Val → Nat → Term × List Triple × Nat
  | [], n => (.iri rdfNil, [], n)
  | v :: vs, n =>
    let cell := freshLabel base n
    let (ov, tv, n1) := valRdf o base v (n + 1)
    let (orest, tr, n2) := listRdf o base vs n1
    (cell, (cell, .iri rdfFirst, ov) :: (cell, .iri rdfRest, orest) :: (tv ++ tr), n2)
end

def valsRdf (o : Opts) (base : Str) (s p : Term) : List Val → Nat → List Triple × Nat
  | [], n => ([], n)
  | v :: vs, n =>
    let (ov, tv, n1) := valRdf o base v n
    let (ts, n2) := valsRdf o base s p vs n1
    ((s, p, ov) :: tv ++ ts, n2)

def entriesRdf (o : Opts) (base : Str) (s : Term) : List (Str × PVal) → Nat → List Triple × Nat
  | [], n => ([], n)
  | (_, .types ids) :: rest, n =>
    let (ts, n1) := entriesRdf o base s rest n
    (ids.map (fun t => (s, .iri rdfType, idTerm t)) ++ ts, n1)
  | (k, .vals vs) :: rest, n =>
    let (t1, n1) := valsRdf o base s (.iri k) vs n
    let (t2, n2) := entriesRdf o base s rest n1
    (t1 ++ t2, n2)

def nodeRdf (o : Opts) (base : Str) (g : Option Term) (nd : NodeObj) (n : Nat) : List Quad × Nat :=
  let (ts, n1) := entriesRdf o base (idTerm nd.id) nd.entries n
  (ts.map (fun t => ⟨t.1, t.2.1, t.2.2, g⟩), n1)

def nodesRdf (o : Opts) (base : Str) (g : Option Term) : List NodeObj → Nat → List Quad × Nat
  | [], n => ([], n)
  | nd :: rest, n =>
    let (q1, n1) := nodeRdf o base g nd n
    let (q2, n2) := nodesRdf o base g rest n1
    (q1 ++ q2, n2)

def docRdf (o : Opts) (base : Str) : Doc → Nat → List Quad × Nat
  | [], n => ([], n)
  | t :: rest, n =>
    let (q1, n1) := nodeRdf o base none t.node n
    let (q2, n2) := match t.graph with
      | none => (([] : List Quad), n1)
      | some ns => nodesRdf o base (some (idTerm t.node.id)) ns n1
    let (q3, n3) := docRdf o base rest n2
    (q1 ++ q2 ++ q3, n3)

mutual
def valLen : Val → Nat
  | .ref i => i.length
  | .list items => valsLen items
  | _ => 0
def valsLen : List Val → Nat
  | [] => 0
  | v :: vs => max (valLen v) (valsLen vs)
end

def nodeLen (nd : NodeObj) : Nat :=
  nd.entries.foldl (fun acc e =>
    match e.2 with
    | .types ids => ids.foldl (fun a i => max a i.length) acc
    | .vals vs => max acc (valsLen vs)) nd.id.length

/-- length of the longest id occurring as `@id` / reference / type anywhere in the document -/
def maxIdLen (d : Doc) : Nat :=
  d.foldl (fun acc t =>
    let a := max acc (nodeLen t.node)
    match t.graph with
    | none => a
    | some ns => ns.foldl (fun b nd => max b (nodeLen nd)) a) 0

/-- the dataset of a document (list cells get labels `ccc…c<n>` longer than every id of the
document, hence fresh) -/
def toRdf (o : Opts) (d : Doc) : List Quad :=
  (docRdf o (List.replicate (maxIdLen d + 1) 'c') d 0).1

end SophiaModel.JsonLd
