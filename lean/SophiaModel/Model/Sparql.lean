/-
C13 — the evaluator of sparql/src AS WRITTEN (exec.rs, bgp.rs, binding.rs, matcher.rs,
expression.rs / function.rs / value.rs for the modelled expression core, wrapper.rs).

What is modelled, function by function:
  wrapper.rs  SparqlWrapper::query         → `query`
  exec.rs     ExecState::new               → `execNew`
              select / ask / bgp / distinct / filter / union / graph / graph_rec / extend /
              order_by (as a multiset) / project / slice        → `select`, `graphRec`, …
  bgp.rs      make_iterator, bgp_rec       → `bgp`, `bgpRec`
  binding.rs  populate_variables, populate_bindings(_term), collect_variables
  matcher.rs  SparqlMatcher::build / build3 / is_bound / matches
  expression.rs eval, EvalResult::{as_term, as_value, into_term, is_truthy, sparql_eq, sparql_cmp}
  value.rs    SparqlValue::{try_from_literal, is_truthy, sparql_eq, partial_cmp, lexical_form, datatype}
              for xsd:integer / xsd:string / xsd:boolean / language strings
  function.rs Str, Lang, Datatype, IsIri, IsBlank, IsLiteral

Abstractions (stated, not hidden):
  * the dataset is the list of its quads; `quads_matching` is a filter over it (the store's own
    correctness is property C01); iterators are lists; `HashMap` = association list where the
    most recent insertion shadows; `HashSet`/`BTreeSet` de-duplication keeps first occurrences
    (row order is not observable through the multiset comparison, and `Slice` is compared by
    containment + size only); `D::Error` is `Infallible` for the in-memory store;
  * a panic (`unwrap` on `None`, violated `debug_assert!`) is the explicit row `none` in the
    result of `bgpRec`, turned into `Err.panic` by `bgp`;
  * numbers: only xsd:integer, as unbounded `Int` (isize / BigInt are not distinguished);
    decimals, floats, doubles, dateTimes and the derived integer types are out of scope: the
    driver refuses (`skip=1`) requests that combine them with an expression.
-/
import SophiaModel.Model.SparqlSpec
import SophiaModel.Gen.SparqlDispatch

namespace SophiaModel.Sparql
open SophiaModel Term
open SophiaModel.SparqlSpec (TP Func Expr CmpOp AOp GName GP QDataset Query xsdString xsdInteger xsdBoolean xsd)

/-! ## binding.rs -/

/-- `BindingMap = HashMap<Arc<str>, ResultTerm>`; `insert` conses, `get` finds the newest -/
abbrev BMap := List (Str × Term)

def BMap.get (m : BMap) (k : Str) : Option Term := List.lookup k m
def BMap.insert (m : BMap) (k : Str) (t : Term) : BMap := (k, t) :: m

/-- `struct Binding { v, b }` -/
structure Binding where
  v : BMap := []
  b : BMap := []
  deriving Repr, DecidableEq, Inhabited

/-! ## matcher.rs -/

inductive Matcher where
  | var (x : Str)
  | bnode (l : Str)
  | triple (s p o : Matcher)
  | bound (t : Term)
  deriving Repr, Inhabited

def Matcher.isBound : Matcher → Bool
  | .bound _ => true
  | _ => false

/-- `SparqlMatcher::build` -/
def Matcher.build (b : Binding) : Term → Matcher
  | .bnode l => match b.b.get l with
    | some t => .bound t
    | none => .bnode l
  | .triple s p o =>
    match Matcher.build b s, Matcher.build b p, Matcher.build b o with
    | .bound s', .bound p', .bound o' => .bound (.triple s' p' o')
    | s', p', o' => .triple s' p' o'
  | .var x => match b.v.get x with
    | some t => .bound t
    | none => .var x
  | t => .bound t

/-- `<SparqlMatcher as TermMatcher>::matches` (the 3-tuple matcher matches quoted triples
componentwise) -/
def Matcher.matches : Matcher → Term → Bool
  | .bound t, x => termEq t x
  | .triple sm pm om, .triple s p o => sm.matches s && pm.matches p && om.matches o
  | .triple _ _ _, _ => false
  | _, _ => true

/-- `[Option<ArcTerm>]` as a `GraphNameMatcher` -/
def graphNameEq : Option Term → Option Term → Bool
  | none, none => true
  | some a, some b => termEq a b
  | _, _ => false

def gmMatches (gm : List (Option Term)) (g : Option Term) : Bool := gm.any (fun m => graphNameEq m g)

/-- `dataset.quads_matching(sm, pm, om, graph_matcher).map(Quad::into_triple)` -/
def quadsMatching (D : List Quad) (sm pm om : Matcher) (gm : List (Option Term)) : List SparqlSpec.Triple :=
  (D.filter (fun q => sm.matches q.s && pm.matches q.p && om.matches q.o && gmMatches gm q.g)).map
    (fun q => (q.s, q.p, q.o))

/-! ## binding.rs: populate_bindings -/

/-- outcome of `populate_bindings`: `Ok(())` with the updated binding, `Err(())`, or a panic -/
inductive Pop
  | ok (b : Binding)
  | reject
  | panic
  deriving Repr, Inhabited

/-- `populate_bindings_term`; the triple case is `populate_bindings` on the quoted pattern -/
def populateTerm : Term → Term → Binding → Pop
  | .bnode l, res, b =>
    match b.b.get l with
    | some t => if termEq t res then .ok b else .reject
    | none => .ok { b with b := b.b.insert l res }
  | .var x, res, b =>
    match b.v.get x with
    | some t => if termEq t res then .ok b else .reject
    | none => .ok { b with v := b.v.insert x res }
  | .triple ps pp po, .triple s p o, b =>
    match populateTerm ps s b with
    | .ok b₁ => match populateTerm pp p b₁ with
      | .ok b₂ => populateTerm po o b₂
      | r => r
    | r => r
  | .triple _ _ _, _, _ => .panic                       -- `result.triple().unwrap()`
  | c, res, b => if termEq c res then .ok b else .panic  -- `debug_assert!(Term::eq(&pattern, result))`

/-- `populate_bindings` -/
def populate (tp : TP) (m : SparqlSpec.Triple) (b : Binding) : Pop :=
  match populateTerm tp.s m.1 b with
  | .ok b₁ => match populateTerm tp.p m.2.1 b₁ with
    | .ok b₂ => populateTerm tp.o m.2.2 b₂
    | r => r
  | r => r

/-- `collect_variables` over `atoms()` -/
def termVars := SparqlSpec.termVars

/-- `populate_variables`: a `HashSet` turned into a `Vec`; modelled as a duplicate-free list -/
def populateVariables (ps : List TP) (binding : Option Binding) : List Str :=
  ((match binding with | some b => b.v.map (·.1) | none => []) ++ ps.flatMap TP.vars).eraseDups

/-! ## bgp.rs -/

/-- continuation step shared by the `first_matches` loop and the `last_match` tail -/
def stepMatch (rec : Binding → List (Option Binding)) (tp : TP) (b : Binding) (m : SparqlSpec.Triple) :
    List (Option Binding) :=
  match populate tp m b with
  | .ok b' => rec b'
  | .reject => []
  | .panic => [none]

/-- `bgp_rec`; `none` in the output marks a panic -/
def bgpRec (D : List Quad) (gm : List (Option Term)) : List TP → Binding → List (Option Binding)
  | [], b => [some b]                                    -- empty BGP, always succeeds
  | tp :: rest, b =>
    let sm := Matcher.build b tp.s
    let pm := Matcher.build b tp.p
    let om := Matcher.build b tp.o
    let allBound := sm.isBound && pm.isBound && om.isBound
    let ms := quadsMatching D sm pm om gm
    match ms.getLast? with
    | none => []                                         -- no matches: abort
    | some last =>
      if allBound then bgpRec D gm rest b                -- existence test
      else
        ms.dropLast.flatMap (stepMatch (bgpRec D gm rest) tp b)
          ++ stepMatch (bgpRec D gm rest) tp b last

inductive Err
  | notImplemented (what : String)
  | override (x : Str)
  | panic
  deriving Repr, DecidableEq, Inhabited

/-- `Bindings { variables, iter }` -/
structure Res where
  vars : List Str
  rows : List Binding
  deriving Repr, Inhabited

/-- `ExecState::bgp` + `bgp::make_iterator` -/
def bgp (D : List Quad) (ps : List TP) (gm : List (Option Term)) (binding : Option Binding) :
    Except Err Res :=
  let rows := bgpRec D gm ps (binding.getD {})
  if rows.any Option.isNone then .error .panic
  else .ok { vars := populateVariables ps binding, rows := rows.filterMap id }

/-! ## value.rs / expression.rs / function.rs — the modelled core -/

/-- `SparqlValue` (Number = integers only; DateTime not modelled) -/
inductive Value
  | num (i : Int)
  | str (lex : Str) (tag : Option Str)
  | bool (b : Option Bool)
  deriving Repr, DecidableEq, Inhabited

/-- `b'0'..=b'9'` -/
def isDigit (c : Char) : Bool := 48 ≤ c.toNat && c.toNat ≤ 57

def digitVal (c : Char) : Nat := c.toNat - 48

/-- `<isize as FromStr>::from_str` (core::num, radix 10) up to the overflow check: empty string and a
lone sign are errors, one optional `+`/`-`, then digits only.  (Values that do not fit an `isize`
are an error there and are parsed again by `BigInt`, with the same result for these strings; the
model keeps one unbounded integer.) -/
def nativeDigits (ds : List Char) : Option Nat :=
  if ds.isEmpty then none
  else ds.foldl (fun acc c => acc.bind (fun n => if isDigit c then some (n * 10 + digitVal c) else none)) (some 0)

def parseNative (lex : Str) : Option Int :=
  match lex with
  | [] => none
  | ['+'] => none
  | ['-'] => none
  | '+' :: ds => (nativeDigits ds).map Int.ofNat
  | '-' :: ds => (nativeDigits ds).map (fun n => -(Int.ofNat n))
  | ds => (nativeDigits ds).map Int.ofNat

/-- `BigUint::from_str_radix(s, 10)` (num-bigint 0.4): one `+` is stripped unless another follows,
the rest must be non-empty, must not start with `_`, and consists of digits and `_` (skipped) -/
def parseBigUint (s : Str) : Option Nat :=
  let s := match s with
    | '+' :: tail => (match tail with | '+' :: _ => s | _ => tail)
    | _ => s
  match s with
  | [] => none
  | '_' :: _ => none
  | _ => s.foldl (fun acc c => acc.bind (fun n =>
      if c = '_' then some n else if isDigit c then some (n * 10 + digitVal c) else none)) (some 0)

/-- `BigInt::from_str_radix(s, 10)`: a leading `-` gives the sign (and is stripped unless `+` follows) -/
def parseBigInt (s : Str) : Option Int :=
  match s with
  | '-' :: tail =>
    let s' := match tail with | '+' :: _ => s | _ => tail
    (parseBigUint s').map (fun n => -(Int.ofNat n))
  | _ => (parseBigUint s).map Int.ofNat

/-- `SparqlNumber::try_parse_integer`: `lex.parse::<isize>()`, else `lex.parse::<BigInt>()` -/
def rustParseInt (lex : Str) : Option Int :=
  match parseNative lex with
  | some i => some i
  | none => parseBigInt lex

/-- `SparqlValue::try_from_literal` for the modelled datatypes; other `xsd:` types that the code
recognises are excluded by the driver (`Scope.unmodelled`) -/
def valueOf : Term → Option Value
  | .lang lex tag => some (.str lex (some tag))
  | .lit lex dt =>
    if dt = xsdInteger then (rustParseInt lex).map .num
    else if dt = xsdString then some (.str lex none)
    else if dt = xsdBoolean then
      some (.bool (if lex = "true".toList then some true else if lex = "false".toList then some false else none))
    else none
  | _ => none

/-- `SparqlValue::is_truthy` -/
def Value.isTruthy : Value → Option Bool
  | .num i => some (i ≠ 0)
  | .str lex _ => some (lex ≠ [])
  | .bool o => some (o.getD false)

/-- `SparqlValue::sparql_eq` -/
def Value.sparqlEq : Value → Value → Option Bool
  | .num a, .num b => some (a == b)
  | .str a none, .str b none => some (a == b)
  | .str a (some t), .str b (some u) => some (tagEq t u && a == b)
  | .bool a, .bool b => some (a == b)
  | _, _ => none

/-- `SparqlValue::partial_cmp` -/
def Value.partialCmp : Value → Value → Option Ordering
  | .num a, .num b => some (compare a b)
  | .str a none, .str b none => some (strCmp a b)
  | .str a (some t), .str b (some u) => some ((tagCmp t u).then (strCmp a b))
  | .bool (some a), .bool (some b) => some (compare a.toNat b.toNat)
  | _, _ => none

def intLex (i : Int) : Str := (toString i).toList

/-- `value_ref_to_arcterm` (`lexical_form` + `datatype`) -/
def Value.toTerm : Value → Term
  | .str lex (some tag) => .lang lex tag
  | .str lex none => .lit lex xsdString
  | .num i => .lit (intLex i) xsdInteger
  | .bool (some b) => .lit (if b then "true".toList else "false".toList) xsdBoolean
  | .bool none => .lit "ill-formed".toList xsdBoolean

/-- `EvalResult` -/
inductive ER
  | term (t : Term)
  | value (v : Value)
  deriving Repr, DecidableEq, Inhabited

def ER.asTerm : ER → Term
  | .term t => t
  | .value v => v.toTerm

def ER.asValue : ER → Option Value
  | .term t => valueOf t
  | .value v => some v

def ER.intoTerm := ER.asTerm

/-- `EvalResult::as_number` -/
def ER.asNumber (r : ER) : Option Int :=
  match r.asValue with
  | some (.num i) => some i
  | _ => none

def ER.isTruthy (r : ER) : Option Bool := r.asValue.bind Value.isTruthy

/-- `Term::is_literal` -/
def termIsLiteral : Term → Bool
  | .lit _ _ => true
  | .lang _ _ => true
  | _ => false

/-- `EvalResult::sparql_eq` -/
def ER.sparqlEq (a b : ER) : Option Bool :=
  match a.asValue, b.asValue with
  | some x, some y => x.sparqlEq y
  | _, _ =>
    let s := a.asTerm
    let o := b.asTerm
    if termEq s o then some true
    else if termIsLiteral s && termIsLiteral o then none
    else some false

/-- `EvalResult::sparql_cmp` -/
def ER.sparqlCmp (a b : ER) : Option Ordering :=
  match a.asValue, b.asValue with
  | some x, some y => x.partialCmp y
  | _, _ =>
    let s := a.asTerm
    let o := b.asTerm
    if termIsLiteral s && termIsLiteral o && termEq s o then some .eq else none

def erBool (b : Bool) : ER := .value (.bool (some b))

/-- `call_function` for Str / Lang / Datatype / IsIri / IsBlank / IsLiteral -/
def callFunction : Func → ER → Option ER
  | .str, arg =>
    match arg with
    | .term (.iri s) => some (.value (.str s none))            -- `as_iri` → `str_iri`
    | _ => match arg.asTerm with                               -- `as_literal` → `str_literal`
      | .lit lex _ => some (.value (.str lex none))
      | .lang lex _ => some (.value (.str lex none))
      | _ => none
  | .lang, arg =>
    match arg.asTerm with
    | .lit _ _ => some (.value (.str [] none))
    | .lang _ tag => some (.value (.str tag none))
    | _ => none
  | .datatype, arg =>
    match arg.asTerm with
    | .lit _ dt => some (.term (.iri dt))
    | .lang _ _ => some (.term (.iri rdfLangString))
    | _ => none
  | .isIri, arg => some (erBool (match arg with | .term (.iri _) => true | _ => false))
  | .isBlank, arg => some (erBool (match arg with | .term (.bnode _) => true | _ => false))
  | .isLiteral, arg => some (erBool (match arg with | .term t => termIsLiteral t | .value _ => true))

/-- the `match (lhs, rhs)` of the `Or` arm -/
def orTable : Option Bool → Option Bool → Option Bool
  | some x, some y => some (x || y)
  | some true, none => some true
  | none, some true => some true
  | _, _ => none

/-- the `match (lhs, rhs)` of the `And` arm -/
def andTable : Option Bool → Option Bool → Option Bool
  | some x, some y => some (x && y)
  | some false, none => some false
  | none, some false => some false
  | _, _ => none

/-- `ArcExpression::eval` (after `from_expr`, which only copies) -/
def evalExpr (b : Binding) : Expr → Option ER
  | .const t => some (.term t)
  | .var x => (b.v.get x).map .term
  | .or l r =>
    -- `lhs.eval(..).and_then(|e| e.is_truthy())` (commit e4da433; the extractor reads which form the
    -- source has); before: `lhs.eval(..)?.is_truthy()`
    if Gen.SparqlDispatch.orAndLenient then
      (orTable ((evalExpr b l).bind ER.isTruthy) ((evalExpr b r).bind ER.isTruthy)).map erBool
    else do
      let lhs := (← evalExpr b l).isTruthy
      let rhs := (← evalExpr b r).isTruthy
      (orTable lhs rhs).map erBool
  | .and l r =>
    if Gen.SparqlDispatch.orAndLenient then
      (andTable ((evalExpr b l).bind ER.isTruthy) ((evalExpr b r).bind ER.isTruthy)).map erBool
    else do
      let lhs := (← evalExpr b l).isTruthy
      let rhs := (← evalExpr b r).isTruthy
      (andTable lhs rhs).map erBool
  | .eq l r => do
    let lhs ← evalExpr b l
    let rhs ← evalExpr b r
    (lhs.sparqlEq rhs).map erBool
  | .sameTerm l r => do
    let lhs := (← evalExpr b l).intoTerm
    let rhs := (← evalExpr b r).intoTerm
    pure (erBool (termEq lhs rhs))
  | .lt l r => do
    let lhs ← evalExpr b l
    let rhs ← evalExpr b r
    (lhs.sparqlCmp rhs).map (fun o => erBool (o == .lt))
  | .not e => do
    let v ← (← evalExpr b e).isTruthy
    pure (erBool (!v))
  | .bound x => some (erBool (b.v.get x).isSome)
  | .call f a => do
    let arg ← evalExpr b a
    callFunction f arg
  -- Greater / LessOrEqual / GreaterOrEqual: `sparql_cmp(..).map(|ord| ord.is_gt() / is_le() / is_ge())`
  | .cmp op l r => do
    let lhs ← evalExpr b l
    let rhs ← evalExpr b r
    (lhs.sparqlCmp rhs).map (fun o => erBool (match op with
      | .gt => o == .gt
      | .le => o != .gt
      | .ge => o != .lt))
  -- Add / Subtract / Multiply: `(lhs.as_number()? op rhs.as_number()?)`; on integers `checked_op`
  -- falling back to `BigInt`, i.e. exact
  | .arith op l r => do
    let lhs ← evalExpr b l
    let rhs ← evalExpr b r
    let x ← lhs.asNumber
    let y ← rhs.asNumber
    pure (.value (.num (match op with | .add => x + y | .sub => x - y | .mul => x * y)))
  | .neg e => do
    let x ← (← evalExpr b e).asNumber
    pure (.value (.num (-x)))
  | .pos e => do
    let x ← (← evalExpr b e).asNumber
    pure (.value (.num x))
  -- `if c.eval(..)?.is_truthy().unwrap_or(false) { t.eval(..) } else { e.eval(..) }`
  -- (after notes/fixes/C13-if-ebv-error.diff, read by the extractor: `.is_truthy()?`)
  | .ite c t e => do
    let cv ← evalExpr b c
    if Gen.SparqlDispatch.ifEbvStrict then do
      let v ← cv.isTruthy
      if v then evalExpr b t else evalExpr b e
    else if cv.isTruthy.getD false then evalExpr b t else evalExpr b e
  -- `In`: the first element whose comparison is not `Some(false)` decides (an error stops the scan)
  -- (after notes/fixes/C13-in-first-error.diff, read by the extractor: every element is compared, `true`
  -- wins over an error, an error over `false`)
  | .inl a e rest => do
    let lhs ← evalExpr b a
    let r := (evalExpr b e).bind (fun o => lhs.sparqlEq o)
    if Gen.SparqlDispatch.inLenient then
      (orTable r ((evalExpr b rest).bind ER.isTruthy)).map erBool
    else if r != some false then r.map erBool
    else evalExpr b rest
  -- `Coalesce`: `find_map`
  | .coalesce a rest => (evalExpr b a).or (evalExpr b rest)
  | .err => none

/-! ## exec.rs -/

/-- `dataset.graph_names()` (default implementation: one name per quad in a named graph) -/
def graphNamesRaw (D : List Quad) : List Term := D.filterMap (·.g)

/-- `.collect::<BTreeSet<_>>()`: de-duplicated (`Ord::cmp = Equal` ⇔ `Term::eq`, C02) -/
def graphNameSet (D : List Quad) : List Term := SparqlSpec.dedupBy termEq (graphNamesRaw D)

/-- the key `distinct` hashes: the bound value of every variable of `variables` -/
def distinctKey (vars : List Str) (b : Binding) : List (Option Term) := vars.map b.v.get

def optTermEq : Option Term → Option Term → Bool
  | none, none => true
  | some a, some b => termEq a b
  | _, _ => false

def keyEq : List (Option Term) → List (Option Term) → Bool
  | [], [] => true
  | a :: l, b :: m => optTermEq a b && keyEq l m
  | _, _ => false

/-- `iter.filter(|b| seen.insert(key(b)))` -/
def distinctRows (vars : List Str) (rows : List Binding) : List Binding :=
  SparqlSpec.dedupBy (fun a b => keyEq (distinctKey vars a) (distinctKey vars b)) rows

/-- the `filter` closure -/
def filterKeeps (e : Expr) (b : Binding) : Bool := ((evalExpr b e).bind ER.isTruthy).getD false

/-- the `extend` closure -/
def extendRow (x : Str) (e : Expr) (b : Binding) : Binding :=
  match evalExpr b e with
  | some val => { b with v := b.v.insert x val.intoTerm }
  | none => b

/-- `graph_rec`, parameterised by `select inner` -/
def graphRec (sel : List (Option Term) → Option Binding → Except Err Res) (x : Str)
    (binding : Option Binding) : List Term → Except Err Res
  | [] => .ok { vars := [], rows := [] }
  | name :: rest => do
    let b₀ := binding.getD {}
    let b : Binding := { b₀ with v := b₀.v.insert x name }
    let r ← sel [some name] (some b)
    let r' ← graphRec sel x binding rest
    pure { vars := r.vars, rows := r.rows ++ r'.rows }

/-- `iter.skip(start)` then `.take(n)` if a length is given -/
def sliceRows {α : Type} (rows : List α) (start : Nat) : Option Nat → List α
  | some n => (rows.drop start).take n
  | none => rows.drop start

/-- `ExecState::select` -/
def select (D : List Quad) : GP → List (Option Term) → Option Binding → Except Err Res
  | .bgp ps, gm, binding => bgp D ps gm binding
  | .path, _, _ => .error (.notImplemented "Path")
  | .join _ _, _, _ => .error (.notImplemented "Join")
  | .leftJoin _ _, _, _ => .error (.notImplemented "LeftJoin")
  | .filter e inner, gm, binding => do
    let r ← select D inner gm binding
    pure { r with rows := r.rows.filter (filterKeeps e) }
  -- `Filter { expr: Exists(pat) | Not(Exists(pat)), inner }`: the `Exists` arm of `ArcExpression::eval`
  -- runs `select(pat, graph_matcher, Some(binding))` on a fresh `ExecState` over the same config and
  -- maps `Err(_)` to `false`
  | .filterExists neg pat inner, gm, binding => do
    -- (after notes/fixes/C13-exists-swallows-refusal.diff, read by the extractor: `check_exists` probes
    -- the pattern against no graph and returns its refusal)
    if Gen.SparqlDispatch.existsChecked then
      let _ ← select D pat [] none
    let r ← select D inner gm binding
    pure { r with rows := r.rows.filter (fun b =>
      let ex := match select D pat gm (some b) with
        | .ok r' => !r'.rows.isEmpty
        | .error _ => false
      if neg then !ex else ex) }
  | .union l r, gm, binding => do
    let a ← select D l gm binding
    let c ← select D r gm binding
    pure { vars := a.vars ++ c.vars.filter (fun v => !a.vars.contains v), rows := a.rows ++ c.rows }
  | .graph (.iri n) inner, _, binding => select D inner [some (.iri n)] binding
  | .graph (.var x) inner, _, binding =>
    match binding.bind (fun b => b.v.get x) with
    | some name => select D inner [some name] binding
    | none => do
      let r₀ ← select D inner [] binding
      let names := graphNameSet D
      if names.isEmpty then
        -- no row, the variables of the probe (commit d984918; the extractor reads which form the
        -- source has); before: `self.select(inner, &[], binding)`
        if Gen.SparqlDispatch.graphEmptyFixed then pure { vars := r₀.vars, rows := [] }
        else select D inner [] binding
      else graphRec (select D inner) x binding names
  | .extend inner x e, gm, binding => do
    let r ← select D inner gm binding
    if r.vars.contains x then throw (.override x)
    pure { vars := r.vars ++ [x], rows := r.rows.map (extendRow x e) }
  | .minus _ _, _, _ => .error (.notImplemented "Minus")
  | .values, _, _ => .error (.notImplemented "Values")
  | .orderBy inner, gm, binding => select D inner gm binding   -- sorted; order not modelled (C14)
  | .project inner xs, gm, binding => do
    let r ← select D inner gm binding
    pure { r with vars := xs }
  | .distinct inner, gm, binding => do
    let r ← select D inner gm binding
    pure { r with rows := distinctRows r.vars r.rows }
  | .reduced _, _, _ => .error (.notImplemented "Reduced")
  | .slice inner start len, gm, binding => do
    let r ← select D inner gm binding
    pure { r with rows := sliceRows r.rows start len }
  | .group _, _, _ => .error (.notImplemented "Group")
  | .service _, _, _ => .error (.notImplemented "Service")

/-- `ExecState::new`: the default matcher, or the error -/
def execNew (D : List Quad) (ds : Option QDataset) : Except Err (List (Option Term)) :=
  let defaultMatcher : List (Option Term) := match ds with
    | none => [none]
    | some q => q.default.map (fun n => some (.iri n))
  match ds.bind (·.named) with
  | none => let _ := graphNamesRaw D; .ok defaultMatcher
  | some _ => .error (.notImplemented "FROM NAMED")

inductive Answer
  | rows (r : Res)
  | bool (b : Bool)
  | err (e : Err)
  deriving Inhabited

/-- `SparqlWrapper::query` -/
def query (D : List Quad) : Query → Answer
  | .select ds p =>
    match execNew D ds with
    | .error e => .err e
    | .ok dm => match select D p dm none with
      | .ok r => .rows r
      | .error e => .err e
  | .construct => .err (.notImplemented "CONSTRUCT query")
  | .describe => .err (.notImplemented "DESCRIBE query")
  | .ask ds p =>
    match execNew D ds with
    | .error e => .err e
    | .ok dm => match select D p dm none with
      | .ok r => .bool (!r.rows.isEmpty)
      | .error e => .err e

/-- the result rows as the caller sees them (`Bindings::into_iter`) -/
def Res.table (r : Res) : List (List (Option Term)) := r.rows.map (fun b => r.vars.map b.v.get)

end SophiaModel.Sparql
