/-
C20 — native Rust values as typed literals (`api/src/term/_native_literal.rs`).

* `impl Term for i32/isize/usize/bool/str/f64`: `lexical_form` / `datatype`, with the shape of each
  `lexical_form` and the datatype names REGENERATED from the source (`Gen.Native.as*`).
* `impl TryFromTerm for f64/i32/isize/usize/bool`: the fixed skeleton
      if let Some(lex) = term.lexical_form() {
          if <datatype in whitelist> { lex.parse() } else { "wrong datatype".parse() }
      } else { "not a literal".parse() }
  with whitelists and the two sentinel strings REGENERATED from the source (`Gen.Native.try*`).
* what the code delegates to `core`: integer `Display` (sign, decimal digits, no leading zeros),
  integer `FromStr` (`from_str_radix(_, 10)`: empty / sign handling / digit loop with checked
  multiplication and addition-or-subtraction), `bool::from_str`.  These are transcribed.
* `f64`'s `Display` / `FromStr` (shortest round-trip printing, correctly rounded parsing) are NOT
  transcribed: they are parameters `fmt` / `parse` (bit patterns in and out), constrained in the
  theorems by explicit hypotheses H1–H4 (see `SophiaProofs/Props/C20.lean`), which the harness
  re-validates against the real implementation on every run.
* XSD lexical spaces (`xsd:integer`, `xsd:boolean`, `xsd:double`, `xsd:decimal`, `xsd:string`) as `Re`
  (hand transcription of XSD 1.1 part 2), and the lexical-to-value mappings used as oracles.
-/
import SophiaModel.Basic.TermOrder
import SophiaModel.Regex.Comb
import SophiaModel.Gen.NativeWhitelist

namespace SophiaModel.Native
open SophiaModel

/-! ## integer types -/

/-- a primitive integer type: signedness and range (`isize`/`usize` are those of a 64-bit target;
the harness reports the real `MIN`/`MAX` on every run) -/
structure IntTy where
  signed : Bool
  min : Int
  max : Int
  deriving Repr, DecidableEq

def i32 : IntTy := ⟨true, -2147483648, 2147483647⟩
def isize : IntTy := ⟨true, -9223372036854775808, 9223372036854775807⟩
def usize : IntTy := ⟨false, 0, 18446744073709551615⟩

def IntTy.InRange (ty : IntTy) (n : Int) : Prop := ty.min ≤ n ∧ n ≤ ty.max

instance (ty : IntTy) (n : Int) : Decidable (ty.InRange n) := by unfold IntTy.InRange; infer_instance

/-- what the three concrete types have in common (used as hypothesis of the generic theorems) -/
structure IntTy.Sane (ty : IntTy) : Prop where
  min_le : ty.min ≤ 0
  max_ge : 0 ≤ ty.max
  unsigned_min : ty.signed = false → ty.min = 0

/-! ### `impl Display` for integers: optional `-`, decimal digits, no leading zeros, `0` for zero -/

def digitChar (d : Nat) : Char := Char.ofNat (48 + d)

/-- `fmt_u64`: digits are produced least significant first into the end of a buffer until the
quotient is zero -/
def showNat (n : Nat) : Str :=
  if n < 10 then [digitChar n] else showNat (n / 10) ++ [digitChar (n % 10)]
termination_by n
decreasing_by omega

/-- `Display for iN`: `is_nonnegative`, absolute value as unsigned, `pad_integral` with prefix `-` -/
def showInt (n : Int) : Str :=
  if n < 0 then '-' :: showNat n.natAbs else showNat n.natAbs

/-! ### `FromStr` for integers = `from_str_radix(src, 10)` -/

/-- `IntErrorKind` (the variants reachable from `from_str`) -/
inductive IntErr | empty | invalidDigit | posOverflow | negOverflow
  deriving Repr, DecidableEq

def IntErr.name : IntErr → String
  | .empty => "Empty" | .invalidDigit => "InvalidDigit"
  | .posOverflow => "PosOverflow" | .negOverflow => "NegOverflow"

/-- `(c as char).to_digit(10)` -/
def digitVal (c : Char) : Option Nat :=
  if '0' ≤ c ∧ c ≤ '9' then some (c.toNat - 48) else none

/-- the digit loop: for each byte, `checked_mul(10)`, `to_digit` (tested first), `checked_add` /
`checked_sub` of the digit; any value outside `[MIN, MAX]` is an overflow.
(The `can_not_overflow` fast path of `core` is the same function.) -/
def parseLoop (ty : IntTy) (positive : Bool) : Int → Str → Except IntErr Int
  | acc, [] => .ok acc
  | acc, c :: cs =>
    match digitVal c with
    | none => .error .invalidDigit
    | some d =>
      let ovf : IntErr := if positive then .posOverflow else .negOverflow
      let m := acc * 10
      if m < ty.min ∨ ty.max < m then .error ovf else
      let r := if positive then m + d else m - d
      if r < ty.min ∨ ty.max < r then .error ovf else parseLoop ty positive r cs

/-- `from_str_radix`:
```
if src.is_empty() { return Err(Empty) }
let (is_positive, digits) = match src {
    [b'+' | b'-'] => return Err(InvalidDigit),
    [b'+', rest @ ..] => (true, rest),
    [b'-', rest @ ..] if is_signed_ty => (false, rest),
    _ => (true, src),
};
```
(for unsigned types a leading `-` reaches the digit loop and is an invalid digit) -/
def parseInt (ty : IntTy) (s : Str) : Except IntErr Int :=
  match s with
  | [] => .error .empty
  | c :: rest =>
    if (c = '+' ∨ c = '-') ∧ rest = [] then .error .invalidDigit
    else if c = '+' then parseLoop ty true 0 rest
    else if c = '-' ∧ ty.signed = true then parseLoop ty false 0 rest
    else parseLoop ty true 0 (c :: rest)

instance {ε α : Type} [DecidableEq ε] [DecidableEq α] : DecidableEq (Except ε α)
  | .ok a, .ok b => if h : a = b then isTrue (by rw [h]) else isFalse (by intro h'; cases h'; exact h rfl)
  | .error a, .error b => if h : a = b then isTrue (by rw [h]) else isFalse (by intro h'; cases h'; exact h rfl)
  | .ok _, .error _ => isFalse (by intro h; cases h)
  | .error _, .ok _ => isFalse (by intro h; cases h)

/-! ### `bool` -/

/-- `bool::from_str` -/
def parseBool (s : Str) : Except Unit Bool :=
  if s = ['t', 'r', 'u', 'e'] then .ok true
  else if s = ['f', 'a', 'l', 's', 'e'] then .ok false
  else .error ()

/-! ## `impl Term for <native>` -/

def xsdIri (name : Str) : Str := Gen.Native.xsdNs ++ name

/-- a `f64` is its bit pattern -/
abbrev F64 := Nat

namespace F64
def expBits (x : F64) : Nat := (x / 2 ^ 52) % 2048
def mantBits (x : F64) : Nat := x % 2 ^ 52
def signBit (x : F64) : Bool := (x / 2 ^ 63) % 2 == 1
def isNaN (x : F64) : Bool := expBits x == 2047 && mantBits x != 0
def isInfinite (x : F64) : Bool := expBits x == 2047 && mantBits x == 0
def isFinite (x : F64) : Bool := expBits x != 2047
def posInf : F64 := 0x7ff0000000000000
def negInf : F64 := 0xfff0000000000000
def qNaN : F64 := 0x7ff8000000000000
end F64

/-- lexical form of an integer value according to the generated shape (only `display` exists for
integers; the other shapes cannot be produced by the extractor for integer types) -/
def intLex (a : Gen.Native.AsTerm) (n : Int) : Str :=
  match a.lex with
  | .display => showInt n
  | _ => showInt n

def boolLex (a : Gen.Native.AsTerm) (b : Bool) : Str :=
  match a.lex with
  | .boolTable t f => if b then t else f
  | _ => if b then ['t', 'r', 'u', 'e'] else ['f', 'a', 'l', 's', 'e']

def strLex (_ : Gen.Native.AsTerm) (s : Str) : Str := s

/-- `f64::lexical_form` given `core`'s `Display for f64` as the parameter `fmt` -/
def f64Lex (a : Gen.Native.AsTerm) (fmt : F64 → Str) (x : F64) : Str :=
  match a.lex with
  | .displaySpecial nan inf ninf =>
    if F64.isNaN x then nan
    else if F64.isInfinite x then (if !F64.signBit x then inf else ninf)   -- `*self > 0.0`
    else fmt x
  | _ => fmt x

/-- the term a native value *is* (kind literal, no language tag) -/
def asTerm (a : Gen.Native.AsTerm) (lex : Str) : Term := .lit lex (xsdIri a.datatype)

def i32Term (n : Int) : Term := asTerm Gen.Native.asI32 (intLex Gen.Native.asI32 n)
def isizeTerm (n : Int) : Term := asTerm Gen.Native.asIsize (intLex Gen.Native.asIsize n)
def usizeTerm (n : Int) : Term := asTerm Gen.Native.asUsize (intLex Gen.Native.asUsize n)
def boolTerm (b : Bool) : Term := asTerm Gen.Native.asBool (boolLex Gen.Native.asBool b)
def strTerm (s : Str) : Term := asTerm Gen.Native.asStr (strLex Gen.Native.asStr s)
def f64Term (fmt : F64 → Str) (x : F64) : Term := asTerm Gen.Native.asF64 (f64Lex Gen.Native.asF64 fmt x)

/-! ## `impl TryFromTerm for <native>` -/

/-- `Term::lexical_form` -/
def lexicalForm : Term → Option Str
  | .lit l _ => some l
  | .lang l _ => some l
  | _ => none

/-- `Term::eq(&term.datatype().unwrap(), xsd::NAME)`: IRI string equality -/
def datatypeIs (t : Term) (name : Str) : Bool := t.datatype == some (xsdIri name)

def accepted (cfg : Gen.Native.TryFrom) (t : Term) : Bool := cfg.whitelist.any (datatypeIs t)

/-- the common skeleton of the five `try_from_term`; `parse` is `str::parse::<T>` -/
def tryFromTermWith {ε α : Type} (cfg : Gen.Native.TryFrom) (parse : Str → Except ε α) (t : Term) :
    Except ε α :=
  match lexicalForm t with
  | some lex => if accepted cfg t then parse lex else parse cfg.wrongDatatype
  | none => parse cfg.notALiteral

def i32TryFromTerm : Term → Except IntErr Int := tryFromTermWith Gen.Native.tryI32 (parseInt i32)
def isizeTryFromTerm : Term → Except IntErr Int := tryFromTermWith Gen.Native.tryIsize (parseInt isize)
def usizeTryFromTerm : Term → Except IntErr Int := tryFromTermWith Gen.Native.tryUsize (parseInt usize)
def boolTryFromTerm : Term → Except Unit Bool := tryFromTermWith Gen.Native.tryBool parseBool
/-- `parse` = `core`'s `f64::from_str` (bit pattern of the result, or an error) -/
def f64TryFromTerm (parse : Str → Except Unit F64) : Term → Except Unit F64 :=
  tryFromTermWith Gen.Native.tryF64 parse

/-! ### the same skeleton over what the `Term` TRAIT lets it observe (any implementation of the trait,
not only the well-formed terms of `SophiaModel.Term`): the partial operation `term.datatype().unwrap()`
is an explicit outcome -/

/-- what `try_from_term` reads of a term: `lexical_form()` and `datatype()` (IRI string). `kind()` is
never consulted by the code. -/
structure View where
  lex : Option Str
  dt : Option Str
  deriving Repr, DecidableEq

/-- the view of a well-formed term -/
def viewOf (t : Term) : View := ⟨lexicalForm t, t.datatype⟩

/-- result of a Rust call that may unwind -/
inductive Outcome (ε α : Type) where
  | ok (a : α)
  | err (e : ε)
  | panic
  deriving Repr, DecidableEq

def Outcome.ofExcept {ε α : Type} : Except ε α → Outcome ε α
  | .ok a => .ok a
  | .error e => .err e

/-- `try_from_term` on an arbitrary `Term` implementation.  The first disjunct of the whitelist test
evaluates `term.datatype().unwrap()` (the extractor guarantees a non-empty whitelist), so a term that
answers `lexical_form()` but not `datatype()` unwinds; `str::parse` itself never does. -/
def tryFromViewWith {ε α : Type} (cfg : Gen.Native.TryFrom) (parse : Str → Except ε α) (v : View) :
    Outcome ε α :=
  match v.lex with
  | some lex =>
    match v.dt with
    | none => .panic
    | some d =>
      if cfg.whitelist.any (fun n => d == xsdIri n) then .ofExcept (parse lex)
      else .ofExcept (parse cfg.wrongDatatype)
  | none => .ofExcept (parse cfg.notALiteral)

/-! ## XSD lexical spaces (XSD 1.1 part 2, hand transcription) and lexical-to-value mappings -/

namespace Xsd
open Re

def digit : Re := rng '0' '9'
def sign : Re := oneOf "+-"
/-- `xsd:integer` (and every type derived from it by facets): `[\-+]?[0-9]+` -/
def integer : Re := seqs [opt sign, plus digit]
/-- `xsd:boolean`: `true | false | 1 | 0` -/
def boolean : Re := alts [lit "true", lit "false", chr '1', chr '0']
/-- `xsd:decimal`: `(\+|-)?([0-9]+(\.[0-9]*)?|\.[0-9]+)` -/
def decimalNoSign : Re := alts [seqs [plus digit, opt (seqs [chr '.', .star digit])], seqs [chr '.', plus digit]]
def decimal : Re := seqs [opt sign, decimalNoSign]
/-- numeric part of `xsd:double` / `xsd:float`:
`(\+|-)?([0-9]+(\.[0-9]*)?|\.[0-9]+)([Ee](\+|-)?[0-9]+)?` -/
def doubleNumeric : Re := seqs [opt sign, decimalNoSign, opt (seqs [oneOf "eE", opt sign, plus digit])]
/-- special values of `xsd:double` / `xsd:float`: `(\+|-)?INF | NaN` (XSD 1.1; 1.0 has no `+INF`) -/
def doubleSpecial : Re := alts [seqs [opt sign, lit "INF"], lit "NaN"]
def double : Re := .alt doubleNumeric doubleSpecial
/-- XML `Char`.  XSD 1.1 lets a processor take `Char` from XML 1.0
(`#x9 | #xA | #xD | [#x20-#xD7FF] | [#xE000-#xFFFD] | [#x10000-#x10FFFF]`) or from XML 1.1
(`[#x1-#xD7FF] | [#xE000-#xFFFD] | [#x10000-#x10FFFF]`); the *larger* set is used here, so that only what
is excluded under both readings (U+0000, U+FFFE, U+FFFF; surrogates cannot occur in a Rust `str`) is
reported as invalid. -/
def xmlChar : Re := .cls [(0x1, 0xD7FF), (0xE000, 0xFFFD), (0x10000, 0x10FFFF)]
/-- `xsd:string`: any sequence of XML `Char`s -/
def string : Re := .star xmlChar

/-- the assumed shape of `core`'s `Display for f64` on finite values (hypothesis H1):
`-?[0-9]+(\.[0-9]+)?` -/
def rustFiniteDisplay : Re := seqs [opt (chr '-'), plus digit, opt (seqs [chr '.', plus digit])]

/-- value of a digit string, most significant first, continuing from `a` -/
def decValFrom (a : Int) : Str → Int
  | [] => a
  | c :: cs => decValFrom (a * 10 + ((c.toNat - 48 : Nat) : Int)) cs

/-- lexical-to-value mapping of `xsd:integer` (on its lexical space; arbitrary elsewhere) -/
def intVal : Str → Int
  | [] => 0
  | c :: ds =>
    if c = '-' then - decValFrom 0 ds
    else if c = '+' then decValFrom 0 ds
    else decValFrom 0 (c :: ds)

/-- lexical-to-value mapping of `xsd:boolean` -/
def boolVal (s : Str) : Option Bool :=
  if s = "true".toList ∨ s = "1".toList then some true
  else if s = "false".toList ∨ s = "0".toList then some false
  else none

/-- the three special values of `xsd:double` -/
inductive Special | posInf | negInf | nan
  deriving Repr, DecidableEq

def specialVal (s : Str) : Option Special :=
  if s = "INF".toList ∨ s = "+INF".toList then some .posInf
  else if s = "-INF".toList then some .negInf
  else if s = "NaN".toList then some .nan
  else none

def matchesS (r : Re) (s : Str) : Bool := matchB r (s.map Char.toNat)

/-- XSD built-in datatypes derived from `xsd:integer`, with their value spaces (bounds; `none` =
unbounded) — hand table, XSD 1.1 part 2 §3.4 -/
def integerDerived : List (Str × Option Int × Option Int) := [
  ("integer".toList, none, none),
  ("nonPositiveInteger".toList, none, some 0),
  ("negativeInteger".toList, none, some (-1)),
  ("long".toList, some (-9223372036854775808), some 9223372036854775807),
  ("int".toList, some (-2147483648), some 2147483647),
  ("short".toList, some (-32768), some 32767),
  ("byte".toList, some (-128), some 127),
  ("nonNegativeInteger".toList, some 0, none),
  ("unsignedLong".toList, some 0, some 18446744073709551615),
  ("unsignedInt".toList, some 0, some 4294967295),
  ("unsignedShort".toList, some 0, some 65535),
  ("unsignedByte".toList, some 0, some 255),
  ("positiveInteger".toList, some 1, none)]

/-- XSD built-in datatypes whose values are real numbers (or the float specials) and whose lexical
forms are (a subset of) those of `xsd:double` -/
def realValued : List Str :=
  ["double".toList, "float".toList, "decimal".toList] ++ integerDerived.map (·.1)

def boundsOf (name : Str) : Option (Option Int × Option Int) :=
  (integerDerived.find? (fun e => e.1 == name)).map (·.2)

/-- datatypes a conversion to a native INTEGER type may accept without ever returning a wrong value:
those whose lexical forms that `from_str_radix` can read (`L(xsd:integer)`) denote, under the datatype's
own lexical mapping, the same integer — the integer-derived types and `xsd:decimal` (`"5"^^xsd:decimal`
is the integer 5; `"5.0"` is refused by the integer parser, an error, which the property allows) -/
def intCompatible : List (Str × Option Int × Option Int) :=
  integerDerived ++ [("decimal".toList, none, none)]

def compatBoundsOf (name : Str) : Option (Option Int × Option Int) :=
  (intCompatible.find? (fun e => e.1 == name)).map (·.2)

/-- does the value space with bounds `b` contain a value of `[lo, hi]`? -/
def intersects (b : Option Int × Option Int) (lo hi : Int) : Bool :=
  (match b.1 with | none => true | some l => decide (l ≤ hi)) &&
  (match b.2 with | none => true | some h => decide (lo ≤ h))

end Xsd

/-! ## exact decimal → binary64 (oracle for "the value the lexical form denotes" of `xsd:double`
lexical forms; round-to-nearest-even on exact rational arithmetic; not used in proofs) -/

namespace Dec

/-- split at the first character satisfying `p` -/
def splitAt (p : Char → Bool) : Str → Str × Str
  | [] => ([], [])
  | c :: cs => if p c then ([], c :: cs) else let (a, b) := splitAt p cs; (c :: a, b)

def natOfDigits (ds : Str) : Nat := ds.foldl (fun a c => a * 10 + (c.toNat - 48)) 0

/-- round-half-even division -/
def divRound (n d : Nat) : Nat :=
  let q := n / d
  let r := n % d
  if 2 * r < d then q else if 2 * r > d then q + 1 else if q % 2 == 0 then q else q + 1

/-- nearest binary64 (bit pattern without sign) to `num / den`, `num, den > 0` -/
def nearest (num den : Nat) : Nat :=
  -- e with 2^e ≤ num/den < 2^(e+1), approximately, then corrected
  let e0 : Int := (Nat.log2 num : Int) - (Nat.log2 den : Int)
  let scale (e : Int) : Nat × Nat :=          -- num/den / 2^e as a fraction
    if e ≥ 0 then (num, den * 2 ^ e.toNat) else (num * 2 ^ (-e).toNat, den)
  let e : Int := let (a, b) := scale e0; if a < b then e0 - 1 else e0   -- now 1 ≤ num/den/2^e < 2
  let e' : Int := if e < -1022 then -1022 else e                      -- subnormal: fixed exponent
  -- mantissa in units of 2^(e'-52)
  let (a, b) := scale (e' - 52)
  let m := divRound a b
  -- m < 2^53 (normal: 2^52 ≤ m ≤ 2^53; subnormal: m ≤ 2^52); carry
  let (m, e') := if m ≥ 2 ^ 53 then (m / 2, e' + 1) else (m, e')
  if m < 2 ^ 52 then m                                   -- subnormal (biased exponent 0) or zero
  else if e' > 1023 then 0x7ff0000000000000              -- overflow to infinity
  else ((e' + 1023).toNat) * 2 ^ 52 + (m - 2 ^ 52)

/-- sign-stripped body of a numeric form -/
def unsignedBody : Str → Bool × Str
  | '-' :: r => (true, r)
  | '+' :: r => (false, r)
  | r => (false, r)

/-- the exponent of a numeric form: (written with `-`?, its digits); `(false, [])` if there is none -/
def expPart (s : Str) : Bool × Str :=
  match ((splitAt (fun c => c == 'e' || c == 'E') (unsignedBody s).2).2).drop 1 with
  | '-' :: r => (true, r)
  | '+' :: r => (false, r)
  | r => (false, r)

/-- value denoted by a member of `Xsd.doubleNumeric` as binary64 bits (round to nearest even);
`expOf` reads the digits of the exponent (`natOfDigits` for the XSD lexical mapping) -/
def doubleOfNumericWith (expOf : Str → Nat) (s : Str) : F64 :=
  let neg := (unsignedBody s).1
  let mant := (splitAt (fun c => c == 'e' || c == 'E') (unsignedBody s).2).1
  let (ip, fp) := splitAt (· == '.') mant
  let fp := fp.drop 1
  let exv : Int := if (expPart s).1 then - (expOf (expPart s).2 : Int) else expOf (expPart s).2
  -- significant digits: leading zeros dropped; trailing zeros moved into the exponent (same value,
  -- keeps the arithmetic small on zero-padded forms)
  let digits0 := (ip ++ fp).dropWhile (· == '0')
  let digits := (digits0.reverse.dropWhile (· == '0')).reverse
  let m := natOfDigits digits
  let e10 : Int := exv - fp.length + (digits0.length - digits.length : Nat)
  let signB : Nat := if neg then 2 ^ 63 else 0
  if m == 0 then signB
  else
    -- magnitude is m * 10^e10 with 10^(len-1) ≤ m < 10^len
    let mag : Int := e10 + digits.length
    if mag > 400 then signB + 0x7ff0000000000000
    else if mag < -400 then signB
    else
      let bits := if e10 ≥ 0 then nearest (m * 10 ^ e10.toNat) 1 else nearest m (10 ^ (-e10).toNat)
      signB + bits

/-- the XSD lexical-to-value mapping on the numeric forms (exponent read exactly) -/
def doubleOfNumeric (s : Str) : F64 := doubleOfNumericWith natOfDigits s

/-- value denoted by a member of `xsd:double`'s lexical space: bits, or `none` for NaN (any NaN) -/
def doubleVal (s : Str) : Option (Option F64) :=
  if Xsd.matchesS Xsd.doubleNumeric s then some (some (doubleOfNumeric s))
  else match Xsd.specialVal s with
    | some .posInf => some (some F64.posInf)
    | some .negInf => some (some F64.negInf)
    | some .nan => some none
    | none => none

end Dec

/-! ## `f64::from_str` as an executable model (syntax transcribed from `core::num::dec2flt`, value by
the exact arithmetic above).  Used by the driver for the differential only — the theorems keep
`parse` abstract (H2/H4). -/

namespace RustF64
open Re

def ci (s : String) : Re :=
  s.toList.foldr (fun c r => .cat (.cls [(c.toLower.toNat, c.toLower.toNat), (c.toUpper.toNat, c.toUpper.toNat)]) r) .eps

/-- `[+-]? ( digits ('.' digits*)? | '.' digits ) ([eE] [+-]? digits)?` — `parse_number`, whole input -/
def numeric : Re := Xsd.doubleNumeric
/-- `parse_inf_nan`: `nan`, `inf`, `infinity`, ASCII case-insensitive, after an optional sign -/
def infRe : Re := seqs [opt Xsd.sign, alts [ci "inf", ci "infinity"]]
def nanRe : Re := seqs [opt Xsd.sign, ci "nan"]

inductive Err | empty | invalid
  deriving Repr, DecidableEq

/-- `parse_scientific`: the exponent's digits are accumulated only while the running value is below
`0x10000`; later digits are DROPPED (not saturated), so an exponent of 655360 or more — whose first five
digits already reach 65536 — is read as a much smaller number:
```
s.parse_digits(|digit| { if exp_num < 0x10000 { exp_num = 10 * exp_num + digit as i64; } });
``` -/
def expClamped (ds : Str) : Nat :=
  ds.foldl (fun e c => if e < 0x10000 then e * 10 + (c.toNat - 48) else e) 0

/-- smallest exponent magnitude that `expClamped` misreads -/
def expClampLimit : Nat := 655360

/-- result: bit pattern (NaN: the quiet NaN with the sign that was written) -/
def parse (s : Str) : Except Err F64 :=
  if s = [] then .error .empty
  else if Xsd.matchesS numeric s then .ok (Dec.doubleOfNumericWith expClamped s)
  else
    let neg := s.head? == some '-'
    if Xsd.matchesS infRe s then .ok (if neg then F64.negInf else F64.posInf)
    else if Xsd.matchesS nanRe s then .ok (if neg then F64.qNaN + 2 ^ 63 else F64.qNaN)
    else .error .invalid

def tryFromTerm : Term → Except Err F64 := tryFromTermWith Gen.Native.tryF64 parse

/-! ### `impl Display for f64` on finite values, as a SPECIFICATION-LEVEL executable model

`core` prints (`float_to_decimal_common_shortest`, Grisu with Dragon fallback) the SHORTEST digit string
that identifies the value, the closest to it among the shortest, laid out by `digits_to_dec_str` without an
exponent.  "Identifies" = lies in the rounding interval = reads back as the same bit pattern under
round-to-nearest-even, so the model searches, for n = 1 … 17 digits, the two n-digit neighbours of the exact
value (closest first) and keeps the first one whose layout READS BACK (`readBack`) to the bit pattern.
Compared with the implementation's `lexical_form()` on every generated double (`lex` of the `f64` request). -/

/-- exact value of a finite, non-zero magnitude (sign bit cleared) as a fraction -/
def fracOf (x : F64) : Nat × Nat :=
  let e := F64.expBits x
  let m := F64.mantBits x
  if e == 0 then (m, 2 ^ 1074)
  else if e ≥ 1075 then ((m + 2 ^ 52) * 2 ^ (e - 1075), 1)
  else (m + 2 ^ 52, 2 ^ (1075 - e))

/-- decimal digits of `n`, most significant first, by structural recursion on a fuel (so that the kernel can
evaluate it; the integer `Display` model above is defined by well-founded recursion) -/
def decDigitsAux : Nat → Nat → Str → Str
  | 0, _, acc => acc
  | fuel + 1, n, acc =>
    if n < 10 then digitChar n :: acc else decDigitsAux fuel (n / 10) (digitChar (n % 10) :: acc)

/-- `Nat.log2 n + 1` bounds the number of decimal digits -/
def decDigits (n : Nat) : Str := decDigitsAux (Nat.log2 n + 1) n []

/-- least `t ≤ fuel` with `num * 10^t ≥ den` -/
def shiftUp (num den : Nat) : Nat → Nat → Nat
  | 0, t => t
  | fuel + 1, t => if num * 10 ^ t ≥ den then t else shiftUp num den fuel (t + 1)

/-- `k` with `10^(k-1) ≤ num/den < 10^k` (`num, den > 0`) -/
def decExp (num den : Nat) : Int :=
  if num ≥ den then ((decDigits (num / den)).length : Int)
  else 1 - (shiftUp num den 400 0 : Int)

/-- `digits_to_dec_str` with no minimum of fractional digits: the value is `0.D × 10^p` -/
def layout (D : Str) (p : Int) : Str :=
  if p ≤ 0 then '0' :: '.' :: (List.replicate (-p).toNat '0' ++ D)
  else if p.toNat < D.length then D.take p.toNat ++ '.' :: D.drop p.toNat
  else D ++ List.replicate (p.toNat - D.length) '0'

/-- significant digits of `d` without trailing zeros (never empty) -/
def sigDigits (d : Nat) : Str :=
  match ((decDigits d).reverse.dropWhile (· == '0')).reverse with
  | [] => ['0']
  | l => l

/-- the decimal `d × 10^q` laid out -/
def render (neg : Bool) (d : Nat) (q : Int) : Str :=
  let body := layout (sigDigits d) ((decDigits d).length + q)
  if neg then '-' :: body else body

/-- what `f64::from_str` returns on a string of the shape `layout` produces (a numeric form) -/
def readBack (s : Str) : F64 := Dec.doubleOfNumericWith expClamped s

/-- the two `n`-digit neighbours of `num/den`, closest first, as (digits value, power of ten) -/
def neighbours (num den : Nat) (k : Int) (n : Nat) : List (Nat × Int) :=
  let q : Int := k - n
  let (a, b) := if q ≤ 0 then (num * 10 ^ (-q).toNat, den) else (num, den * 10 ^ q.toNat)
  let lo := a / b
  let r := a % b
  if r == 0 then [(lo, q)]
  else if 2 * r < b then [(lo, q), (lo + 1, q)]
  else [(lo + 1, q), (lo, q)]          -- above the middle, or exactly in the middle (Dragon rounds half up)

/-- first candidate that reads back -/
def firstGood (x : F64) (neg : Bool) : List (Nat × Int) → Option Str
  | [] => none
  | (d, q) :: rest =>
    let s := render neg d q
    if d ≠ 0 ∧ readBack s = x then some s else firstGood x neg rest

def searchDigits (x : F64) (neg : Bool) (num den : Nat) (k : Int) : Nat → Nat → Option Str
  | 0, _ => none
  | fuel + 1, n =>
    match firstGood x neg (neighbours num den k n) with
    | some s => some s
    | none => searchDigits x neg num den k fuel (n + 1)

/-- `format!("{}", x)` for a finite `x` (bit pattern `< 2^64`); `none` for non-finite values, and if no
decimal of at most 17 digits reads back (which does not happen: differential, and the classical
17-digit theorem) -/
def display (x : F64) : Option Str :=
  if !F64.isFinite x then none
  else
    let neg := F64.signBit x
    let mag := x % 2 ^ 63
    if mag == 0 then some (if neg then ['-', '0'] else ['0'])
    else
      let (num, den) := fracOf mag
      searchDigits x neg num den (decExp num den) 17 1

end RustF64

end SophiaModel.Native
