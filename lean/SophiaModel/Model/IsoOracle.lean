/-
C07: what the *property* demands of a pair of datasets, computed without any part of the algorithm's model
(`SophiaModel.Iso`).  The driver (Driver/C07.lean) turns these two tests into the oracle fields
`o.iso=1` / `o.iso=0`; Props/C07.lean proves that each of them implies the hypothesis of the corresponding
theorem (`certOk_sound`, `groundDiffers_sound`), so the oracle never demands more than the theorems give.
-/
import SophiaModel.Model.Iso

namespace SophiaModel.IsoOracle
open SophiaModel SophiaModel.Term SophiaModel.Iso

/-- a renaming given as a finite table (identity outside it) -/
def applyβ (β : List (Str × Str)) (b : Str) : Str := (β.lookup b).getD b

def relabelT (β : List (Str × Str)) : Term → Term
  | .bnode b => .bnode (applyβ β b)
  | .triple s p o => .triple (relabelT β s) (relabelT β p) (relabelT β o)
  | t => t

def mapQ (f : Term → Term) (q : Quad) : Quad := ⟨f q.s, f q.p, f q.o, q.g.map f⟩

/-- language tags folded (`Term::eq` ignores their case) -/
def normT : Term → Term
  | .lang l t => .lang l (foldTag t)
  | .triple s p o => .triple (normT s) (normT p) (normT o)
  | t => t

/-- every blank node label replaced by the empty one, at any depth -/
def blankT : Term → Term
  | .bnode _ => .bnode []
  | .triple s p o => .triple (blankT s) (blankT p) (blankT o)
  | t => t

/-- the distinct elements (last occurrences) -/
def distinct : List Str → List Str
  | [] => []
  | a :: l => if l.contains a then distinct l else a :: distinct l

/-- the distinct blank node labels of a dataset: any depth, graph names included -/
def labels (D : List Quad) : List Str := distinct (D.flatMap quadBnodes)

/-- the request carries a certificate of isomorphism: `β` is injective on the labels of `D1` and `D2` is a
permutation of `β(D1)` -/
def certOk (β : List (Str × Str)) (D1 D2 : List Quad) : Bool :=
  let ls := labels D1
  (distinct (ls.map (applyβ β))).length == ls.length &&
  (D1.map (mapQ (relabelT β))).isPerm D2

/-- the property's three "must be false" conditions: different sizes, different numbers of blank nodes,
different multisets of statements once blank nodes are blanked out (language tags compared as `Term::eq` does) -/
def groundDiffers (D1 D2 : List Quad) : Bool :=
  D1.length != D2.length || (labels D1).length != (labels D2).length ||
  !((D1.map (mapQ (fun t => normT (blankT t)))).isPerm (D2.map (mapQ (fun t => normT (blankT t)))))

/-- well-formed terms only (an untagged literal never has datatype rdf:langString): the standing assumption of
the `Term::eq`/`Term::cmp` transcription (C02) under which `iso_relabel` is proved -/
def wfQ (q : Quad) : Bool :=
  q.s.WF && q.p.WF && q.o.WF && (match q.g with | none => true | some g => g.WF)

end SophiaModel.IsoOracle
