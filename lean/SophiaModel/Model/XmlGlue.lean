/-
C18 — RDF/XML serialisation.

Sophia's own code (modelled branch by branch):
  * `rio/src/serializer.rs`  `convert_triple`, `rio_format_triples`
  * `xml/src/serializer.rs`  `RdfXmlSerializer::serialize_triples` (indentation switch, `finish`)

Third-party code, HAND-MODELLED at event level (tied to the real crates only by the byte-exact /
semantic differential of `harness/props/c18`, not verified):
  * rio_xml 0.8.6 `RdfXmlFormatter::{write_start, format, finish}`, `split_iri`, `utils.rs`
  * quick-xml 0.36.2 `escape`, `Writer::write_event` with `Indentation`
  * a reference READER for exactly the vocabulary the formatter emits: tokeniser (as quick-xml's
    reader behaves on these documents) + the `rio_xml` parser's state machine restricted to
    `rdf:RDF / rdf:Description / property element` with `rdf:about`, `rdf:nodeID`, `rdf:resource`,
    `rdf:datatype`, `xml:lang`; anything outside is `unsupported`.  With `conf = true` the reader
    additionally performs the XML 1.0 normalisations a conforming processor applies (line ends,
    attribute values) which quick-xml 0.36 does not.
-/
import SophiaModel.Basic.Term

namespace SophiaModel.XmlGlue
open SophiaModel

def rdfNs : Str := "http://www.w3.org/1999/02/22-rdf-syntax-ns#".toList
def xsdString : Str := "http://www.w3.org/2001/XMLSchema#string".toList

/-! ## `rio_api::model` (the part `convert_triple` can produce) -/

mutual
inductive RSubject where
  | named (iri : Str)
  | blank (id : Str)
  | triple (t : RTriple)
inductive RObject where
  | named (iri : Str)
  | blank (id : Str)
  | simple (v : Str)
  | lang (v l : Str)
  | typed (v dt : Str)
  | triple (t : RTriple)
inductive RTriple where
  | mk (s : RSubject) (p : Str) (o : RObject)
end

/-- `convert_triple(t, Empty).head()` for the triple `t = .triple s p o` (any other term: `none`).
The Rust function threads a `Stack` that only keeps the converted inner triples alive; what is
observable is the head, or `Empty` as soon as any constituent is not convertible. -/
def convertT : Term → Option RTriple
  | .triple s p o =>
    match (match s with
        | .iri i => some (RSubject.named i)
        | .bnode b => some (RSubject.blank b)
        | .triple _ _ _ => (convertT s).map RSubject.triple
        | _ => none) with
    | none => none
    | some subj =>
      match p with
      | .iri pi =>
        match (match o with
            | .iri i => some (RObject.named i)
            | .bnode b => some (RObject.blank b)
            | .lit v dt => some (if dt = xsdString then RObject.simple v else RObject.typed v dt)
            | .lang v l => some (RObject.lang v l)
            | .triple _ _ _ => (convertT o).map RObject.triple
            | .var _ => none) with
        | none => none
        | some obj => some (RTriple.mk subj pi obj)
      | _ => none
  | _ => none

abbrev Triple := Term × Term × Term

def convertTriple (t : Triple) : Option RTriple := convertT (.triple t.1 t.2.1 t.2.2)

/-! ## XML name classes as `rio_xml/src/utils.rs` spells them -/

def isNameStartChar (c : Char) : Bool :=
  let n := c.toNat
  c == ':' || (65 ≤ n && n ≤ 90) || c == '_' || (97 ≤ n && n ≤ 122)
  || (0xC0 ≤ n && n ≤ 0xD6) || (0xD8 ≤ n && n ≤ 0xF6) || (0xF8 ≤ n && n ≤ 0x2FF)
  || (0x370 ≤ n && n ≤ 0x37D) || (0x37F ≤ n && n ≤ 0x1FFF) || (0x200C ≤ n && n ≤ 0x200D)
  || (0x2070 ≤ n && n ≤ 0x218F) || (0x2C00 ≤ n && n ≤ 0x2FEF) || (0x3001 ≤ n && n ≤ 0xD7FF)
  || (0xF900 ≤ n && n ≤ 0xFDCF) || (0xFDF0 ≤ n && n ≤ 0xFFFD) || (0x10000 ≤ n && n ≤ 0xEFFFF)

def isNameChar (c : Char) : Bool :=
  let n := c.toNat
  isNameStartChar c || c == '-' || c == '.' || (48 ≤ n && n ≤ 57) || n == 0xB7
  || (0x300 ≤ n && n ≤ 0x36F) || (0x203F ≤ n && n ≤ 0x2040)

/-- `is_nc_name` of rio_xml's parser: `Name` without `:` -/
def isNCName : Str → Bool
  | [] => false
  | c :: cs => isNameStartChar c && c != ':' && cs.all (fun d => isNameChar d && d != ':')

/-! ## `split_iri` (rio_xml formatter.rs) -/

/-- the `rfind` predicate: `!is_name_char(c) || c == ':'` -/
def isBreak (c : Char) : Bool := !isNameChar c || c == ':'
/-- the `find` predicate: `is_name_start_char(c) && c != ':'` -/
def isLocalStart (c : Char) : Bool := isNameStartChar c && c != ':'

/-- `iri.rfind(isBreak)` then `iri[pos..].find(isLocalStart)`; `(iri, "")` when either fails.
`tailRev` is the (reversed) maximal trailing run without break character, `b` the break
character found by `rfind`; the forward search starts AT `b` as in the Rust code. -/
def splitIri (iri : Str) : Str × Str :=
  match iri.reverse.span (fun c => !isBreak c) with
  | (_, []) => (iri, [])
  | (tailRev, b :: headRev) =>
    match (b :: tailRev.reverse).span (fun c => !isLocalStart c) with
    | (_, []) => (iri, [])
    | (pre, loc) => (headRev.reverse ++ pre, loc)

/-! ## events, as `RdfXmlFormatter` hands them to the quick-xml `Writer`
Attribute values and text are stored UNESCAPED; `BytesText::new` / `push_attribute` escape, which
`renderEv` does. -/

inductive Ev where
  | decl
  | start (name : Str) (attrs : List (Str × Str))
  | empty (name : Str) (attrs : List (Str × Str))
  | text (s : Str)
  | close (name : Str)
  deriving DecidableEq, Repr, Inhabited

/-- `OwnedSubject` -/
inductive Owned where
  | named (iri : Str)
  | blank (id : Str)
  deriving DecidableEq, Repr, Inhabited

def rdfDescription : Str := "rdf:Description".toList
def rdfRDF : Str := "rdf:RDF".toList

/-- `self.current_subject.as_ref().map(|v| v.into()) != Some(triple.subject)` negated -/
def sameSubject : Option Owned → RSubject → Bool
  | some (.named a), .named b => a == b
  | some (.blank a), .blank b => a == b
  | _, _ => false

/-- `write_start` -/
def startEvs : List Ev := [.decl, .start rdfRDF [("xmlns:rdf".toList, rdfNs)]]

/-- "We open a new rdf:Description if useful": the new `current_subject` and the events written;
`none` = `Err(InvalidInput, "RDF/XML only supports named or blank subject")` -/
def openDesc (cur : Option Owned) (s : RSubject) : Option (Owned × List Ev) :=
  if sameSubject cur s then
    (match cur with | some c => some (c, []) | none => none)
  else
    let closeEv : List Ev := if cur.isSome then [.close rdfDescription] else []
    match s with
    | .named i => some (.named i, closeEv ++ [.start rdfDescription [("rdf:about".toList, i)]])
    | .blank b => some (.blank b, closeEv ++ [.start rdfDescription [("rdf:nodeID".toList, b)]])
    | .triple _ => none

/-- element name and namespace declaration of the property element: the local part of
`split_iri`, or the pseudo name `prop:` when there is none -/
def propName (p : Str) : Str × (Str × Str) :=
  let r := splitIri p
  if r.2.isEmpty then ("prop:".toList, ("xmlns:prop".toList, r.1)) else (r.2, ("xmlns".toList, r.1))

/-- the property element; `none` = `Err(InvalidInput, "RDF/XML only supports named, blank or
literal object")` -/
def propEvs (p : Str) (o : RObject) : Option (List Ev) :=
  let qname := (propName p).1
  let xmlns := (propName p).2
  match o with
  | .named i => some [.empty qname [xmlns, ("rdf:resource".toList, i)]]
  | .blank b => some [.empty qname [xmlns, ("rdf:nodeID".toList, b)]]
  | .simple v => some [.start qname [xmlns], .text v, .close qname]
  | .lang v l => some [.start qname [xmlns, ("xml:lang".toList, l)], .text v, .close qname]
  | .typed v dt => some [.start qname [xmlns, ("rdf:datatype".toList, dt)], .text v, .close qname]
  | .triple _ => none

/-- `RdfXmlFormatter::format`: `none` = `Err(InvalidInput)` -/
def formatTriple (cur : Option Owned) : RTriple → Option (Option Owned × List Ev)
  | .mk s p o =>
    match openDesc cur s with
    | none => none
    | some (owned, evs1) =>
      match propEvs p o with
      | none => none
      | some evs2 => some (some owned, evs1 ++ evs2)

def formatAll : Option Owned → List RTriple → Option (Option Owned × List Ev)
  | cur, [] => some (cur, [])
  | cur, t :: ts =>
    match formatTriple cur t with
    | none => none
    | some (cur', evs) =>
      match formatAll cur' ts with
      | none => none
      | some (cur'', evs') => some (cur'', evs ++ evs')

/-- `finish` -/
def finishEvs (cur : Option Owned) : List Ev :=
  (if cur.isSome then [Ev.close rdfDescription] else []) ++ [Ev.close rdfRDF]

/-- `rio_format_triples`: non-convertible triples are skipped (`None => Ok(())`), the first
formatter error aborts.  Followed by `finish`. -/
def events (ts : List Triple) : Option (List Ev) :=
  match formatAll none (ts.filterMap convertTriple) with
  | none => none
  | some (cur, evs) => some (startEvs ++ evs ++ finishEvs cur)

/-! ## quick-xml escaping and writer -/

/-- `escape`: exactly `< > & ' "`; TAB, LF, CR and every other character are copied -/
def escChar : Char → Str
  | '<' => "&lt;".toList
  | '>' => "&gt;".toList
  | '&' => "&amp;".toList
  | '\'' => "&apos;".toList
  | '"' => "&quot;".toList
  | c => [c]

def escape (s : Str) : Str := s.flatMap escChar

def renderAttrs (as : List (Str × Str)) : Str :=
  as.flatMap (fun kv => ' ' :: kv.1 ++ ('=' :: '"' :: escape kv.2) ++ ['"'])

def declText : Str := "<?xml version=\"1.0\" encoding=\"UTF-8\"?>".toList

def renderEv : Ev → Str
  | .decl => declText
  | .start n as => '<' :: n ++ renderAttrs as ++ ['>']
  | .empty n as => '<' :: n ++ renderAttrs as ++ ['/', '>']
  | .text s => escape s
  | .close n => '<' :: '/' :: n ++ ['>']

/-- what reaches the output: an event, or whitespace INSERTED by the writer's indentation
(`"\n"` followed by `k` spaces) -/
inductive Piece where
  | ws (k : Nat)
  | ev (e : Ev)
  deriving DecidableEq, Repr, Inhabited

/-- `Indentation` state: `should_line_break`, `current_indent_len` -/
structure Ind where
  slb : Bool
  len : Nat
  deriving DecidableEq, Repr, Inhabited

def wrapped (st : Ind) (e : Ev) : List Piece := if st.slb then [.ws st.len, .ev e] else [.ev e]

/-- `Writer::write_event` with `indent = Some(Indentation{indent_size = size})` -/
def writeEv (size : Nat) (st : Ind) (e : Ev) : Ind × List Piece :=
  match e with
  | .start _ _ => (⟨true, st.len + size⟩, wrapped st e)
  | .close _ => let st' : Ind := ⟨st.slb, st.len - size⟩; (⟨true, st'.len⟩, wrapped st' e)
  | .empty _ _ => (⟨true, st.len⟩, wrapped st e)
  | .decl => (⟨true, st.len⟩, wrapped st e)
  | .text _ => (⟨false, st.len⟩, [.ev e])

def writeFrom (size : Nat) : Ind → List Ev → List Piece
  | _, [] => []
  | st, e :: es => let r := writeEv size st e; r.2 ++ writeFrom size r.1 es

/-- `Writer::new` (no indentation at all) or `Writer::new_with_indent(_, b' ', size)` -/
def writeAll : Option Nat → List Ev → List Piece
  | none, evs => evs.map Piece.ev
  | some size, evs => writeFrom size ⟨false, 0⟩ evs

def renderPiece : Piece → Str
  | .ws k => '\n' :: List.replicate k ' '
  | .ev e => renderEv e

def render (ps : List Piece) : Str := ps.flatMap renderPiece

/-- the switch in `RdfXmlSerializer::serialize_triples`: `indentation > 0` selects
`with_indentation`, otherwise `new` -/
def indentOf (n : Nat) : Option Nat := if n > 0 then some n else none

def pieces (n : Nat) (ts : List Triple) : Option (List Piece) := (events ts).map (writeAll (indentOf n))

/-- the serialiser's output; `none` = `Err(SinkError(..))` -/
def serialize (n : Nat) (ts : List Triple) : Option Str := (pieces n ts).map render

/-! ## the other exits of `RdfXmlSerializer::serialize_triples` and the default configuration -/

/-- `#[derive(Default)]` on `RdfXmlConfig { indentation: usize }`; what `RdfXmlConfig::new()`,
`RdfXmlSerializer::new` and `new_stringifier` use -/
def defaultIndentation : Nat := 0

/-- length in bytes of the UTF-8 encoding (what an `io::Write` counts) -/
def utf8Len (s : Str) : Nat := (s.map Char.utf8Size).sum

/-- `Ok(self)` (with what the writer holds), `Err(SinkError(_))`, `Err(SourceError(_))` -/
inductive Outcome where
  | ok (doc : Str)
  | sinkErr
  | sourceErr
  deriving DecidableEq, Repr, Inhabited

/-- a writer that accepts `cap` bytes and fails afterwards (`none`: never fails, e.g. `Vec<u8>`) -/
def overflows (cap : Option Nat) (out : Str) : Bool :=
  match cap with
  | none => false
  | some c => decide (c < utf8Len out)

/-- `serialize_triples` on a source that yields `ts` and then either ends or fails (`srcFails`),
into a writer with capacity `cap`.  Order of effects as in the Rust code: `RdfXmlFormatter::new`
writes the prologue, every triple is written when it is pulled (so a formatter refusal or a full
writer is met BEFORE the source's error, both as `SinkError`: `TF::Error = io::Error`), the
source's error ends the loop as `SourceError`, and only then `finish()` writes the end tags, whose
error is `SinkError` again. -/
def serializeTriples (n : Nat) (ts : List Triple) (srcFails : Bool) (cap : Option Nat) : Outcome :=
  match formatAll none (ts.filterMap convertTriple) with
  | none => .sinkErr
  | some (cur, evs) =>
    if overflows cap (render (writeAll (indentOf n) (startEvs ++ evs))) then .sinkErr
    else if srcFails then .sourceErr
    else
      let doc := render (writeAll (indentOf n) (startEvs ++ evs ++ finishEvs cur))
      if overflows cap doc then .sinkErr else .ok doc

/-! ## reference reader -/

/-- value of a digit in the given radix (10 or 16), as `u32::from_str_radix` reads it -/
def digitVal (radix : Nat) (c : Char) : Option Nat :=
  let n := c.toNat
  if 48 ≤ n && n ≤ 57 then some (n - 48)
  else if radix == 16 && 97 ≤ n && n ≤ 102 then some (n - 87)
  else if radix == 16 && 65 ≤ n && n ≤ 70 then some (n - 55)
  else none

/-- `u32::from_str_radix` behind quick-xml's sign guard: at least one digit, digits only (the
`u32` overflow is subsumed by the code point check of `charRef`) -/
def parseRadix (radix : Nat) : Str → Option Nat
  | [] => none
  | s => s.foldl (fun acc c => match acc, digitVal radix c with
      | some a, some d => some (a * radix + d)
      | _, _ => none) (some 0)

/-- quick-xml 0.36 `parse_number` on what stands between `&#` and `;`: `x` + hex digits or decimal
digits; code 0 and non-scalar values (surrogates, > 0x10FFFF) are errors; NO check against the XML
`Char` production (`&#1;` is accepted) -/
def charRef (num : Str) : Option Char :=
  let code := match num with
    | 'x' :: h => parseRadix 16 h
    | _ => parseRadix 10 num
  match code with
  | none => none
  | some n => if n = 0 then none else if n < 0xD800 || (0xE000 ≤ n && n < 0x110000) then some (Char.ofNat n) else none

/-- quick-xml's `unescape_with` as rio_xml calls it (no DTD entities): the five predefined
entities and numeric character references; any other `&…` is an error.  `pending = some acc`:
inside `&#…`, `acc` = the characters read so far (reversed), up to the next `;`. -/
def unescapeFrom : Option Str → Str → Option Str
  | some _, [] => none
  | some acc, ';' :: r =>
    match charRef acc.reverse with
    | none => none
    | some c => (unescapeFrom none r).map (c :: ·)
  | some acc, d :: r => unescapeFrom (some (d :: acc)) r
  | none, [] => some []
  | none, '&' :: 'l' :: 't' :: ';' :: r => (unescapeFrom none r).map ('<' :: ·)
  | none, '&' :: 'g' :: 't' :: ';' :: r => (unescapeFrom none r).map ('>' :: ·)
  | none, '&' :: 'a' :: 'm' :: 'p' :: ';' :: r => (unescapeFrom none r).map ('&' :: ·)
  | none, '&' :: 'a' :: 'p' :: 'o' :: 's' :: ';' :: r => (unescapeFrom none r).map ('\'' :: ·)
  | none, '&' :: 'q' :: 'u' :: 'o' :: 't' :: ';' :: r => (unescapeFrom none r).map ('"' :: ·)
  | none, '&' :: '#' :: r => unescapeFrom (some []) r
  | none, '&' :: _ => none
  | none, c :: r => (unescapeFrom none r).map (c :: ·)

/-- inverse of `escape` (the writer produces only the five predefined entities), and what the
reader additionally accepts: numeric character references -/
def unescape (s : Str) : Option Str := unescapeFrom none s

/-- XML 1.0 §2.11: CRLF and lone CR become LF (done by a conforming processor before parsing) -/
def lineEnd : Str → Str
  | [] => []
  | '\r' :: '\n' :: r => '\n' :: lineEnd r
  | '\r' :: r => '\n' :: lineEnd r
  | c :: r => c :: lineEnd r

/-- XML 1.0 §3.3.3 for literal characters of a CDATA attribute: TAB, LF, CR become a space -/
def attrNorm (s : Str) : Str := s.map (fun c => if c == '\t' || c == '\n' || c == '\r' then ' ' else c)

/-- text content as a conforming XML processor delivers it -/
def conformantText (raw : Str) : Option Str := unescape (lineEnd raw)
/-- attribute value as a conforming XML processor delivers it -/
def conformantAttr (raw : Str) : Option Str := unescape (attrNorm (lineEnd raw))

def isWs (c : Char) : Bool := c == ' ' || c == '\t' || c == '\n' || c == '\r'

inductive Tok where
  | decl
  | start (name : Str) (attrs : List (Str × Str)) (selfClose : Bool)   -- attribute values RAW
  | close (name : Str)
  | text (raw : Str)
  deriving DecidableEq, Repr, Inhabited

/-- ` key="value"`* ; values must be double-quoted (all the writer produces) -/
def parseAttrs : Nat → Str → Option (List (Str × Str))
  | 0, _ => none
  | fuel + 1, s =>
    match s.dropWhile isWs with
    | [] => some []
    | s' =>
      match s'.span (fun c => c != '=') with
      | (key, '=' :: '"' :: rest) =>
        match rest.span (fun c => c != '"') with
        | (val, '"' :: rest') => (parseAttrs fuel rest').map ((key, val) :: ·)
        | _ => none
      | _ => none

def dropLast (s : Str) : Str := s.take (s.length - 1)

/-- the text between `<` and `>` -/
def parseTag (tag : Str) : Option Tok :=
  match tag with
  | '?' :: _ => some .decl
  | '/' :: name => some (.close (name.takeWhile (fun c => !isWs c)))
  | _ =>
    let selfClose := tag.getLast? == some '/'
    let body := if selfClose then dropLast tag else tag
    let (name, rest) := body.span (fun c => !isWs c)
    (parseAttrs (rest.length + 1) rest).map (fun as => Tok.start name as selfClose)

def tokenize : Nat → Str → Option (List Tok)
  | 0, _ => none
  | _, [] => some []
  | fuel + 1, '<' :: rest =>
    match rest.span (fun c => c != '>') with
    | (tag, '>' :: after) =>
      match parseTag tag, tokenize fuel after with
      | some t, some ts => some (t :: ts)
      | _, _ => none
    | _ => none
  | fuel + 1, c :: rest =>
    match (c :: rest).span (fun d => d != '<') with
    | (txt, after) => (tokenize fuel after).map (Tok.text txt :: ·)

/-- outcome of reading a document -/
inductive Read where
  | ok (ts : List Triple)
  | err            -- the real parser reports an error
  | unsupported    -- outside the vocabulary this reader models
  deriving DecidableEq, Repr, Inhabited

/-- `RESERVED_RDF_ELEMENTS` (local names) -/
def reservedElements : List Str :=
  ["about", "aboutEach", "aboutEachPrefix", "bagID", "datatype", "ID", "li", "nodeID", "parseType", "RDF",
   "resource"].map String.toList

def rdfName (l : String) : Str := rdfNs ++ l.toList

def isReservedElement (iri : Str) : Bool := reservedElements.any (fun l => iri == rdfNs ++ l)

/-- parser states that occur for the vocabulary -/
inductive RState where
  | doc
  | rdf
  | node (subj : Owned) (li : Nat)
  | prop (iri : Str) (subj : Owned) (lang : Option Str) (dt : Option Str) (obj : Option (Owned ⊕ Str))
  deriving Repr, Inhabited

abbrev Scope := List (Str × Str)   -- prefix ↦ namespace (raw attribute value); "" = default

def splitQName (n : Str) : Str × Str :=
  match n.span (fun c => c != ':') with
  | (l, []) => ([], l)
  | (p, _ :: l) => (p, l)

def nsBindings : List (Str × Str) → Scope
  | [] => []
  | (k, v) :: r =>
    if k == "xmlns".toList then ([], v) :: nsBindings r
    else match splitQName k with
      | (p, l) => if p == "xmlns".toList then (l, v) :: nsBindings r else nsBindings r

def lookupNs (sc : Scope) (p : Str) : Option Str := (sc.find? (fun b => b.1 == p)).map (·.2)

def asciiLower (s : Str) : Str := s.map (fun c => if 65 ≤ c.toNat && c.toNat ≤ 90 then Char.ofNat (c.toNat + 32) else c)

def ownedTerm : Owned → Term
  | .named i => .iri i
  | .blank b => .bnode b

/-- `new_literal` -/
def newLiteral (v : Str) (lang dt : Option Str) : Term :=
  match dt, lang with
  | some d, _ => .lit v d
  | none, some l => .lang v l
  | none, none => .lit v xsdString

/-- attribute values are normalised first when the reader is a conforming XML processor -/
def attrValue (conf : Bool) (raw : Str) : Option Str := if conf then unescape (attrNorm raw) else unescape raw

structure Attrs where
  about : Option Str := none
  nodeId : Option Str := none
  resource : Option Str := none
  datatype : Option Str := none
  lang : Option Str := none
  deriving Repr, Inhabited

/-- the attribute loop of `parse_start_event`; `none` = error, `some none` = outside vocabulary -/
def readAttrs (conf : Bool) (sc : Scope) : List (Str × Str) → Attrs → Option (Option Attrs)
  | [], acc => some (some acc)
  | (k, raw) :: r, acc =>
    if k.take 3 == "xml".toList then
      if k == "xml:lang".toList then
        match attrValue conf raw with
        | none => none
        | some v => readAttrs conf sc r { acc with lang := some (asciiLower v) }
      else if k == "xml:base".toList then some none
      else readAttrs conf sc r acc           -- xmlns declarations and other xml* attributes
    else
      match splitQName k with
      | ([], _) => none                      -- "XML namespaces are required in RDF/XML"
      | (p, l) =>
        match lookupNs sc p with
        | none => none                       -- unknown prefix
        | some nsRaw =>
          match unescape (nsRaw ++ l), attrValue conf raw with
          | some url, some v =>
            if url == rdfName "about" then readAttrs conf sc r { acc with about := some v }
            else if url == rdfName "resource" then readAttrs conf sc r { acc with resource := some v }
            else if url == rdfName "datatype" then readAttrs conf sc r { acc with datatype := some v }
            else if url == rdfName "nodeID" then
              if isNCName v then readAttrs conf sc r { acc with nodeId := some v } else none
            else some none
          | _, _ => none

/-- one step of the `rio_xml` parser on a start tag (the matching end for empty elements is fed
by `interp`); stack entries carry the namespace scope and the tag name for the end-name check -/
abbrev Stack := List (RState × Scope × Str)

inductive Step where
  | go (stack : Stack) (out : List Triple)
  | err
  | unsupported

def onStart (conf : Bool) (stack : Stack) (name : Str) (attrs : List (Str × Str)) : Step :=
  match stack with
  | [] => .err
  | (st, parentScope, pname) :: below =>
    let sc := nsBindings attrs ++ parentScope
    let (p, l) := splitQName name
    match lookupNs sc p with
    | none => .err
    | some nsRaw =>
      match unescape (nsRaw ++ l) with
      | none => .err
      | some iri =>
        match readAttrs conf sc attrs {} with
        | none => .err
        | some none => .unsupported
        | some (some a) =>
          match st with
          | .doc =>
            if iri == rdfName "RDF" then .go ((.rdf, sc, name) :: stack) [] else .unsupported
          | .rdf =>
            if isReservedElement iri then .err
            else if iri != rdfName "Description" then .unsupported
            else match a.nodeId, a.about with
              | some b, none => .go ((.node (.blank b) 0, sc, name) :: stack) []
              | none, some i => .go ((.node (.named i) 0, sc, name) :: stack) []
              | some _, some _ => .err
              | none, none => .unsupported
          | .node subj li =>
            -- `rdf:li` is renumbered `rdf:_n` (what the real parser does with a predicate `rdf:li`)
            let isLi := iri == rdfName "li"
            if !isLi && (isReservedElement iri || iri == rdfName "Description") then .err
            else
              let iri' := if isLi then rdfNs ++ ('_' :: (toString (li + 1)).toList) else iri
              let stack' : Stack := if isLi then (.node subj (li + 1), parentScope, pname) :: below else stack
              match a.resource, a.nodeId with
              | some i, none => .go ((.prop iri' subj a.lang a.datatype (some (.inl (.named i))), sc, name) :: stack') []
              | none, some b => .go ((.prop iri' subj a.lang a.datatype (some (.inl (.blank b))), sc, name) :: stack') []
              | none, none => .go ((.prop iri' subj a.lang a.datatype none, sc, name) :: stack') []
              | some _, some _ => .err
          | .prop .. => .unsupported     -- nested node element

/-- `parse_end_event` / `end_state` -/
def onEnd (stack : Stack) (name : Str) : Step :=
  match stack with
  | [] => .err
  | (st, _, open_) :: below =>
    if open_ != name then .err           -- quick-xml `check_end_names`
    else match st with
      | .prop iri subj lang dt obj =>
        let o : Term := match obj with
          | some (.inl n) => ownedTerm n
          | some (.inr t) => newLiteral t lang dt
          | none => newLiteral [] lang dt
        .go below [(ownedTerm subj, .iri iri, o)]
      | .doc => .err
      | _ => .go below []

/-- `parse_text_event`; `conf` readers see line-end-normalised text -/
def onText (stack : Stack) (raw : Str) : Step :=
  match unescape raw with
  | none => .err
  | some text =>
    match stack with
    | (.prop iri subj lang dt _, sc, n) :: below =>
      if raw.all isWs then .go stack []     -- whitespace-only text is IGNORED (rio_xml 0.8.6)
      else .go ((.prop iri subj lang dt (some (.inr text)), sc, n) :: below) []
    | _ => if raw.all isWs then .go stack [] else .err

def interp (conf : Bool) : Stack → List Tok → Read
  | _, [] => .ok []
  | stack, tok :: toks =>
    let step : Step := match tok with
      | .decl => .go stack []
      | .text raw => onText stack raw
      | .close n => onEnd stack n
      | .start n as selfClose =>
        match onStart conf stack n as with
        | .go stack' out =>
          if selfClose then
            match onEnd stack' n with
            | .go stack'' out' => .go stack'' (out ++ out')
            | s => s
          else .go stack' out
        | s => s
    match step with
    | .err => .err
    | .unsupported => .unsupported
    | .go stack' out =>
      match interp conf stack' toks with
      | .ok ts => .ok (out ++ ts)
      | r => r

def initStack : Stack := [(.doc, [("xml".toList, "http://www.w3.org/XML/1998/namespace".toList)], [])]

/-- read a document: `conf = false` models what `sophia_xml::parser` (rio_xml over quick-xml 0.36)
does on the writer's vocabulary; `conf = true` a conforming XML 1.0 processor in front of the same
RDF/XML state machine -/
def readDoc (conf : Bool) (doc : Str) : Read :=
  let d := if conf then lineEnd doc else doc
  match tokenize (d.length + 1) d with
  | none => .err
  | some toks => interp conf initStack toks

/-! ## what the property compares -/

/-- strict RDF triple: the triples RDF/XML can express -/
def isStrict (t : Triple) : Bool :=
  (match t.1 with | .iri _ | .bnode _ => true | _ => false) &&
  (match t.2.1 with | .iri _ => true | _ => false) &&
  (match t.2.2 with | .iri _ | .bnode _ | .lit _ _ | .lang _ _ => true | _ => false)

def restrict (ts : List Triple) : List Triple := ts.filter isStrict

end SophiaModel.XmlGlue
