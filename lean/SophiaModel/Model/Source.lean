/-
C15 — executable model of `sophia_api::source` (api/src/source.rs and source/*.rs), of the Rio
adapter (rio/src/parser.rs), of `insert_all`/`remove_all` (api/src/graph.rs, dataset.rs), of the
collectors (`from_triple_source` in api/src/graph/_foreign_impl.rs and inmem/src/graph.rs) and of the
N-Triples / N-Quads serializers' per-item closure (turtle/src/serializer/{nt,nq}.rs).

Rust closures are `FnMut` values mutating captured state; here a callback is a state-passing
function `κ → ι → κ × Except εk Unit` (the new captured state is produced *also* when the callback
fails: a writer has written some bytes, a store has interned some terms).  A `&mut self` method
of a source returns the new source state.  Every definition names the Rust item it mirrors.
-/
namespace SophiaModel.Source

/-! ## `StreamError`, `StreamResult` (api/src/source/_stream_error.rs) -/

inductive StreamError (ε εk : Type) where
  | source (e : ε)
  | sink (e : εk)
  deriving Repr, DecidableEq

abbrev StreamResult (α ε εk : Type) := Except (StreamError ε εk) α

/-- `StreamError::inner_into` (both sides convert into the same error type; here: are the same) -/
def StreamError.innerInto {ε : Type} : StreamError ε ε → ε
  | .source e => e
  | .sink e => e

/-- a callback `F: FnMut(Item) -> Result<(), E>` with captured state `κ` -/
abbrev Sink (κ ι εk : Type) := κ → ι → κ × Except εk Unit

/-- a source hands the items of one step to the callback, in order; the first callback error
aborts the step (`?` in the iterator impl; in Rio the handler's error is returned from
`parse_step` at once).  Items after the failing one are never offered. -/
def feed {κ ι εk : Type} (f : Sink κ ι εk) : κ → List ι → κ × Except εk Unit
  | k, [] => (k, .ok ())
  | k, i :: is =>
    match f k i with
    | (k', .ok ()) => feed f k' is
    | (k', .error e) => (k', .error e)

/-! ## Sources -/

/-- `trait Source`: the one required method, generic in the callback's error type `E` (and, here,
in the callback's captured state).  `fuel` bounds the number of `try_for_some_item` calls that can
return `Ok(true)` (the `while` loops below are total functions only with such a bound; it never
runs out for the sources modelled here — theorem `fuel_suffices`). -/
structure Source (σ ι ε : Type) where
  tryForSomeItem : {κ εk : Type} → Sink κ ι εk → σ → κ → σ × κ × StreamResult Bool ε εk
  fuel : σ → Nat

/-- one step of a concrete source: end of stream; some items (possibly zero) then success; some
items then a failure of the source itself -/
inductive Step (σ ι ε : Type) where
  | done
  | batch (items : List ι) (next : σ)
  | fail (items : List ι) (e : ε) (next : σ)

/-- `try_for_some_item` of a source given by a step function.

* iterator of `Result` (api/src/source.rs, `impl<I, T, E> Source for I`):
  `None => Ok(false)`; `Some(Ok(t)) => { f(t).map_err(SinkError)?; Ok(true) }`;
  `Some(Err(e)) => Err(SourceError(e))`.
* Rio (rio/src/parser.rs): `if parser.is_end() { return Ok(false) }`, then
  `parser.parse_step(&mut |t| f(Trusted(t)).map_err(RioStreamError::Sink))
      .map_err(StreamError::from).and(Ok(true))`: a handler error inside the step comes back as
  `SinkError`, the parser's own error as `SourceError` (after the items it had already emitted). -/
def ofStep {σ ι ε : Type} (step : σ → Step σ ι ε) (fuel : σ → Nat) : Source σ ι ε where
  tryForSomeItem f s k :=
    match step s with
    | .done => (s, k, .ok false)
    | .batch is s' =>
      match feed f k is with
      | (k', .ok ()) => (s', k', .ok true)
      | (k', .error e) => (s', k', .error (.sink e))
    | .fail is e s' =>
      match feed f k is with
      | (k', .ok ()) => (s', k', .error (.source e))
      | (k', .error e') => (s', k', .error (.sink e'))
  fuel := fuel

/-- `Iterator<Item = Result<T, E>>`: one item per step -/
def iterStep {ι ε : Type} : List (Except ε ι) → Step (List (Except ε ι)) ι ε
  | [] => .done
  | .ok t :: rest => .batch [t] rest
  | .error e :: rest => .fail [] e rest

def iterSource {ι ε : Type} : Source (List (Except ε ι)) ι ε :=
  ofStep iterStep (fun s => s.length + 1)

/-- what one `parse_step` of a Rio parser did: the triples it emitted, then `Ok` or its error -/
inductive Ev (ι ε : Type) where
  | ok (items : List ι)
  | err (items : List ι) (e : ε)
  deriving Repr

/-- a Rio-like batch source: the state is the list of the remaining `parse_step` outcomes;
`is_end()` ⇔ nothing remains -/
def rioStep {ι ε : Type} : List (Ev ι ε) → Step (List (Ev ι ε)) ι ε
  | [] => .done
  | .ok is :: rest => .batch is rest
  | .err is e :: rest => .fail is e rest

def rioSource {ι ε : Type} : Source (List (Ev ι ε)) ι ε :=
  ofStep rioStep (fun s => s.length + 1)

/-! ## Provided methods of `Source` (api/src/source.rs) -/

section provided
variable {σ ι ε κ εk : Type}

/-- `while self.try_for_some_item(&mut f)? {}  Ok(())` — `none` = fuel exhausted (unreachable) -/
def tryForEachLoop (S : Source σ ι ε) (f : Sink κ ι εk) :
    Nat → σ → κ → σ × κ × Option (StreamResult Unit ε εk)
  | 0, s, k => (s, k, none)
  | n + 1, s, k =>
    match S.tryForSomeItem f s k with
    | (s', k', .ok true) => tryForEachLoop S f n s' k'
    | (s', k', .ok false) => (s', k', some (.ok ()))
    | (s', k', .error e) => (s', k', some (.error e))

/-- `Source::try_for_each_item` -/
def tryForEachItem (S : Source σ ι ε) (f : Sink κ ι εk) (s : σ) (k : κ) :
    σ × κ × Option (StreamResult Unit ε εk) :=
  tryForEachLoop S f (S.fuel s) s k

/-- `Source::for_some_item`: the infallible `f` is wrapped into `|t| { f(t); Ok(()) }` with
`E = Self::Error`, and the `StreamError` is flattened by `inner_into` -/
def forSomeItem (S : Source σ ι ε) (g : κ → ι → κ) (s : σ) (k : κ) : σ × κ × Except ε Bool :=
  match S.tryForSomeItem (εk := ε) (fun k t => (g k t, .ok ())) s k with
  | (s', k', .ok b) => (s', k', .ok b)
  | (s', k', .error e) => (s', k', .error e.innerInto)

/-- `while self.for_some_item(&mut f)? {}  Ok(())` -/
def forEachLoop (S : Source σ ι ε) (g : κ → ι → κ) : Nat → σ → κ → σ × κ × Option (Except ε Unit)
  | 0, s, k => (s, k, none)
  | n + 1, s, k =>
    match forSomeItem S g s k with
    | (s', k', .ok true) => forEachLoop S g n s' k'
    | (s', k', .ok false) => (s', k', some (.ok ()))
    | (s', k', .error e) => (s', k', some (.error e))

/-- `Source::for_each_item` -/
def forEachItem (S : Source σ ι ε) (g : κ → ι → κ) (s : σ) (k : κ) : σ × κ × Option (Except ε Unit) :=
  forEachLoop S g (S.fuel s) s k

/-- `TripleSource::try_for_some_triple` / `QuadSource::try_for_some_quad`:
`self.try_for_some_item(|i| f(i))` -/
def tryForSomeTriple (S : Source σ ι ε) (f : Sink κ ι εk) (s : σ) (k : κ) :=
  S.tryForSomeItem (fun k i => f k i) s k

/-- `TripleSource::try_for_each_triple` / `try_for_each_quad`: `self.try_for_each_item(|i| f(i))` -/
def tryForEachTriple (S : Source σ ι ε) (f : Sink κ ι εk) (s : σ) (k : κ) :=
  tryForEachItem S (fun k i => f k i) s k

/-- `TripleSource::for_each_triple` / `for_each_quad`: `self.for_each_item(|i| f(i))` -/
def forEachTriple (S : Source σ ι ε) (g : κ → ι → κ) (s : σ) (k : κ) :=
  forEachItem S (fun k i => g k i) s k

/-- the harness's (and any user's) step-wise driving: call `try_for_some_item` until it returns
`Ok(false)` or an error, counting the calls that returned `Ok(true)` -/
def stepwiseLoop (S : Source σ ι ε) (f : Sink κ ι εk) :
    Nat → Nat → σ → κ → σ × κ × Nat × Option (StreamResult Unit ε εk)
  | 0, steps, s, k => (s, k, steps, none)
  | n + 1, steps, s, k =>
    match S.tryForSomeItem f s k with
    | (s', k', .ok true) => stepwiseLoop S f n (steps + 1) s' k'
    | (s', k', .ok false) => (s', k', steps, some (.ok ()))
    | (s', k', .error e) => (s', k', steps, some (.error e))

def stepwise (S : Source σ ι ε) (f : Sink κ ι εk) (s : σ) (k : κ) :=
  stepwiseLoop S f (S.fuel s) 0 s k

end provided

/-! ## Adapters: each one wraps the callback and calls the inner source -/

section adapters
variable {σ ι ι' ε : Type}

/-- `FilterSource::try_for_some_item` (api/src/source/filter.rs):
`self.source.try_for_some_item(|i| { if p(&i) { f(i)?; } Ok(()) })` -/
def filterItems (p : ι → Bool) (S : Source σ ι ε) : Source σ ι ε where
  tryForSomeItem f s k :=
    S.tryForSomeItem (fun k i =>
      if p i then
        match f k i with
        | (k', .error e) => (k', .error e)
        | (k', .ok ()) => (k', .ok ())
      else (k, .ok ())) s k
  fuel := S.fuel

/-- `TripleSource::filter_triples` / `QuadSource::filter_quads`:
`FilterTripleSource(self.filter_items(move |i| predicate(i)))`, whose `try_for_some_item` is
`self.0.try_for_some_item(|i| f(i))` -/
def filterTriples (p : ι → Bool) (S : Source σ ι ε) : Source σ ι ε where
  tryForSomeItem f s k := (filterItems (fun i => p i) S).tryForSomeItem (fun k i => f k i) s k
  fuel := (filterItems (fun i => p i) S).fuel

/-- `MapSource::try_for_some_item` (map.rs): `self.source.try_for_some_item(|t| f((map)(t)))` -/
def mapItems (g : ι → ι') (S : Source σ ι ε) : Source σ ι' ε where
  tryForSomeItem f s k := S.tryForSomeItem (fun k t => f k (g t)) s k
  fuel := S.fuel

/-- `TripleSource::map_triples` / `map_quads`: `self.map_items(move |i| map(i))` -/
def mapTriples (g : ι → ι') (S : Source σ ι ε) : Source σ ι' ε := mapItems (fun i => g i) S

/-- `FilterMapSource::try_for_some_item` (filter_map.rs):
`self.source.try_for_some_item(|t| match (filter_map)(t) { None => Ok(()), Some(out) => f(out) })` -/
def filterMapItems (g : ι → Option ι') (S : Source σ ι ε) : Source σ ι' ε where
  tryForSomeItem f s k :=
    S.tryForSomeItem (fun k t =>
      match g t with
      | none => (k, .ok ())
      | some out => f k out) s k
  fuel := S.fuel

/-- `filter_map_triples` / `filter_map_quads`: `self.filter_map_items(move |i| filter_map(i))` -/
def filterMapTriples (g : ι → Option ι') (S : Source σ ι ε) : Source σ ι' ε :=
  filterMapItems (fun i => g i) S

/-- `ToQuads::try_for_some_item` (convert.rs):
`self.0.try_for_some_triple(|t| { let quad = (t.to_spo(), None); f(quad) })`; `ToTriples` likewise
with `q.to_spog().0` -/
def convert (conv : ι → ι') (S : Source σ ι ε) : Source σ ι' ε where
  tryForSomeItem f s k := tryForSomeTriple S (fun k t => let x := conv t; f k x) s k
  fuel := S.fuel

end adapters

/-! ## Concrete items and the adapter family sent over the line protocol

A triple is `<x:s> <x:p> "n"^^xsd:integer`, determined by the number `n`; a quad additionally has a
graph name: `g = 0` the default graph, `g > 0` the IRI `<x:g{g}>`. -/

inductive Item where
  | triple (n : Nat)
  | quad (n : Nat) (g : Nat)
  deriving Repr, DecidableEq

def Item.val : Item → Nat
  | .triple n => n
  | .quad n _ => n

/-- `(t.to_spo(), None)` -/
def Item.toQuad : Item → Item
  | .triple n => .quad n 0
  | q => q

/-- `q.to_spog().0` -/
def Item.toTriple : Item → Item
  | .quad n _ => .triple n
  | t => t

/-- predicate family: keep an item iff `value mod m ≠ r` (`m = 0`: compare the value itself) -/
structure Pred where
  m : Nat
  r : Nat
  deriving Repr, DecidableEq

def Pred.eval (p : Pred) (i : Item) : Bool := i.val % p.m != p.r

/-- mapping family: add `k` to the value, keeping the kind / turning the triple into a quad of
graph `g` / turning the quad into a triple -/
inductive Fn where
  | add (k : Nat)
  | addToQuad (k : Nat) (g : Nat)
  | addToTriple (k : Nat)
  deriving Repr, DecidableEq

def Fn.eval : Fn → Item → Item
  | .add k, .triple n => .triple (n + k)
  | .add k, .quad n g => .quad (n + k) g
  | .addToQuad k g, i => .quad (i.val + k) g
  | .addToTriple k, i => .triple (i.val + k)

/-- `(p(&t)).then(|| f(t))` — the filter-map closures of the harness -/
def fmEval (p : Pred) (f : Fn) (i : Item) : Option Item := if p.eval i then some (f.eval i) else none

inductive Adapter where
  | filterItems (p : Pred)
  | filterTriples (p : Pred)
  | filterQuads (p : Pred)
  | mapItems (f : Fn)
  | mapTriples (f : Fn)
  | mapQuads (f : Fn)
  | filterMapItems (p : Pred) (f : Fn)
  | filterMapTriples (p : Pred) (f : Fn)
  | filterMapQuads (p : Pred) (f : Fn)
  | toQuads
  | toTriples
  deriving Repr, DecidableEq

/-- the Rust adapter value built by each method -/
def Adapter.apply {σ ε : Type} (a : Adapter) (S : Source σ Item ε) : Source σ Item ε :=
  match a with
  | .filterItems p => Source.filterItems p.eval S
  | .filterTriples p => Source.filterTriples p.eval S
  | .filterQuads p => Source.filterTriples p.eval S
  | .mapItems f => Source.mapItems f.eval S
  | .mapTriples f => Source.mapTriples f.eval S
  | .mapQuads f => Source.mapTriples f.eval S
  | .filterMapItems p f => Source.filterMapItems (fmEval p f) S
  | .filterMapTriples p f => Source.filterMapTriples (fmEval p f) S
  | .filterMapQuads p f => Source.filterMapTriples (fmEval p f) S
  | .toQuads => Source.convert Item.toQuad S
  | .toTriples => Source.convert Item.toTriple S

/-- `src.a₁(..).a₂(..)…aₙ(..)`: the first adapter of the list is applied first (innermost) -/
def applyChain {σ ε : Type} (c : List Adapter) (S : Source σ Item ε) : Source σ Item ε :=
  c.foldl (fun S a => a.apply S) S

/-! ## `MapSource::into_iter` / `FilterMapSource::into_iter` (map.rs, filter_map.rs)

`MapSourceIterator { source, map, buffer }` and `FilterMapSourceIterator` turn a mapped source back
into an `Iterator<Item = Result<T, E>>` (which is again a `Source`, see `ofIter`).  `next`:

    let mut remaining = true;
    let mut buffer = take(self.buffer);
    while buffer.is_empty() && remaining {
        match self.source.for_some_item(|i| buffer.push_back(Ok((self.map)(i)))) {   // filter_map: push iff Some
            Ok(b) => remaining = b,
            Err(err) => { buffer.push_back(Err(err)); remaining = false; }            // AFTER the step's items
        }
    }
    self.buffer = buffer;  self.buffer.pop_front()
-/

/-- state of the buffering iterator: the inner source and the buffer -/
structure IterSt (σ ι ε : Type) where
  source : σ
  buffer : List (Except ε ι)

/-- `buffer.push_back(Ok((self.map)(i)))` -/
def mapPush {ι ι' ε : Type} (g : ι → ι') (b : List (Except ε ι')) (i : ι) : List (Except ε ι') :=
  b ++ [.ok (g i)]

/-- `if let Some(t) = (self.filter_map)(i) { buffer.push_back(Ok(t)) }` -/
def filterMapPush {ι ι' ε : Type} (g : ι → Option ι') (b : List (Except ε ι')) (i : ι) : List (Except ε ι') :=
  match g i with
  | some t => b ++ [.ok t]
  | none => b

/-- the `while buffer.is_empty() && remaining` loop (fuel: at most `S.fuel` steps can be taken) -/
def fillLoop {σ ι ι' ε : Type} (S : Source σ ι ε) (push : List (Except ε ι') → ι → List (Except ε ι')) :
    Nat → σ → List (Except ε ι') → Bool → σ × List (Except ε ι')
  | 0, s, buf, _ => (s, buf)
  | n + 1, s, buf, remaining =>
    if buf.isEmpty && remaining then
      match forSomeItem S push s buf with
      | (s', buf', .ok b) => fillLoop S push n s' buf' b
      | (s', buf', .error e) => fillLoop S push n s' (buf' ++ [.error e]) false
    else (s, buf)

/-- `Iterator::next` of `MapSourceIterator` / `FilterMapSourceIterator` -/
def iterNext {σ ι ι' ε : Type} (S : Source σ ι ε) (push : List (Except ε ι') → ι → List (Except ε ι'))
    (st : IterSt σ ι' ε) : Option (Except ε ι') × IterSt σ ι' ε :=
  match fillLoop S push (S.fuel st.source) st.source st.buffer true with
  | (s', []) => (none, ⟨s', []⟩)
  | (s', x :: rest) => (some x, ⟨s', rest⟩)

/-- `impl<I, T, E> Source for I where I: Iterator<Item = Result<T, E>>` for an iterator given by its
`next` function (api/src/source.rs; `iterSource` is the instance for a list) -/
def ofIter {τ ι ε : Type} (next : τ → Option (Except ε ι) × τ) (fuel : τ → Nat) : Source τ ι ε where
  tryForSomeItem f s k :=
    match next s with
    | (some (.error e), s') => (s', k, .error (.source e))
    | (some (.ok t), s') =>
      match f k t with
      | (k', .error e) => (s', k', .error (.sink e))
      | (k', .ok ()) => (s', k', .ok true)
    | (none, s') => (s', k, .ok false)
  fuel := fuel

/-! ### Specification side: what an adapter / a chain *means* (a partial function on items) -/

def Adapter.fn : Adapter → Item → Option Item
  | .filterItems p, i | .filterTriples p, i | .filterQuads p, i => if p.eval i then some i else none
  | .mapItems f, i | .mapTriples f, i | .mapQuads f, i => some (f.eval i)
  | .filterMapItems p f, i | .filterMapTriples p f, i | .filterMapQuads p f, i => fmEval p f i
  | .toQuads, i => some i.toQuad
  | .toTriples, i => some i.toTriple

def chainFn : List Adapter → Item → Option Item
  | [], i => some i
  | a :: rest, i => (a.fn i).bind (chainFn rest)

/-- the items a consumer behind chain `c` is entitled to see, given the items of the source -/
def chainItems (c : List Adapter) (items : List Item) : List Item := items.filterMap (chainFn c)

/-- all items a script delivers before (and in the same step as) its first failing step -/
def Ev.itemsOf {ι ε : Type} : List (Ev ι ε) → List ι
  | [] => []
  | .ok is :: rest => is ++ itemsOf rest
  | .err is _ :: _ => is

/-- the error of the first failing step -/
def Ev.errorOf {ι ε : Type} : List (Ev ι ε) → Option ε
  | [] => none
  | .ok _ :: rest => errorOf rest
  | .err _ e :: _ => some e

/-- the closure pushing into the buffer for `a(..).into_iter()`; Rust offers `into_iter` on
`MapSource` / `FilterMapSource` only — for the other adapters (never requested) the definition is
total through the adapter's meaning -/
def Adapter.push {ε : Type} (a : Adapter) : List (Except ε Item) → Item → List (Except ε Item) :=
  match a with
  | .mapItems f => mapPush f.eval
  | .mapTriples f | .mapQuads f => mapPush (fun i => f.eval i)
  | .filterMapItems p f => filterMapPush (fmEval p f)
  | .filterMapTriples p f | .filterMapQuads p f => filterMapPush (fun i => fmEval p f i)
  | a => filterMapPush a.fn

def Adapter.hasIntoIter : Adapter → Bool
  | .mapItems _ | .mapTriples _ | .mapQuads _ => true
  | .filterMapItems .. | .filterMapTriples .. | .filterMapQuads .. => true
  | _ => false

/-- an upper bound on the number of results a script can still produce -/
def Ev.bound {ι ε : Type} : List (Ev ι ε) → Nat
  | [] => 0
  | .ok is :: rest => is.length + bound rest
  | .err is _ :: rest => is.length + 1 + bound rest

/-- `S.a(..).into_iter()` used as a `Source` again (an iterator of `Result`s), over a batch source -/
def intoIterSource {ε : Type} (S : Source (List (Ev Item ε)) Item ε) (a : Adapter) :
    Source (IterSt (List (Ev Item ε)) Item ε) Item ε :=
  ofIter (iterNext S a.push) (fun st => st.buffer.length + Ev.bound st.source + 1)

/-- everything the iterator will yield from a script (it is not fused: it goes on after an error,
as the underlying source does): `h` = meaning of the adapters up to and including the mapped one -/
def resultsOf {ε : Type} (h : Item → Option Item) : List (Ev Item ε) → List (Except ε Item)
  | [] => []
  | .ok is :: rest => (is.filterMap h).map .ok ++ resultsOf h rest
  | .err is e :: rest => (is.filterMap h).map .ok ++ .error e :: resultsOf h rest

/-! ### Adapters with ARBITRARY pure closures (any item type)

The family `Adapter` above exists so that chains can be sent over the line protocol; the statement
of the property does not depend on it: `GAdapter` carries any closures. -/

inductive GAdapter (ι : Type) where
  | filterItems (p : ι → Bool)
  | filterTriples (p : ι → Bool)
  | mapItems (g : ι → ι)
  | mapTriples (g : ι → ι)
  | filterMapItems (g : ι → Option ι)
  | filterMapTriples (g : ι → Option ι)
  | convert (g : ι → ι)

def GAdapter.apply {σ ι ε : Type} (a : GAdapter ι) (S : Source σ ι ε) : Source σ ι ε :=
  match a with
  | .filterItems p => Source.filterItems p S
  | .filterTriples p => Source.filterTriples p S
  | .mapItems g => Source.mapItems g S
  | .mapTriples g => Source.mapTriples g S
  | .filterMapItems g => Source.filterMapItems g S
  | .filterMapTriples g => Source.filterMapTriples g S
  | .convert g => Source.convert g S

def GAdapter.fn {ι : Type} : GAdapter ι → ι → Option ι
  | .filterItems p, i | .filterTriples p, i => if p i then some i else none
  | .mapItems g, i | .mapTriples g, i | .convert g, i => some (g i)
  | .filterMapItems g, i | .filterMapTriples g, i => g i

def gApplyChain {σ ι ε : Type} (c : List (GAdapter ι)) (S : Source σ ι ε) : Source σ ι ε :=
  c.foldl (fun S a => a.apply S) S

def gChainFn {ι : Type} : List (GAdapter ι) → ι → Option ι
  | [], i => some i
  | a :: rest, i => (a.fn i).bind (gChainFn rest)

/-- the concrete family is an instance -/
def Adapter.toG : Adapter → GAdapter Item
  | .filterItems p => .filterItems p.eval
  | .filterTriples p | .filterQuads p => .filterTriples p.eval
  | .mapItems f => .mapItems f.eval
  | .mapTriples f | .mapQuads f => .mapTriples f.eval
  | .filterMapItems p f => .filterMapItems (fmEval p f)
  | .filterMapTriples p f | .filterMapQuads p f => .filterMapTriples (fmEval p f)
  | .toQuads => .convert Item.toQuad
  | .toTriples => .convert Item.toTriple

/-- what the property demands of a whole run: the consumer's callback is fed `xs` in order until
it fails (then: `SinkError` with its error); otherwise the source's error, if any, as `SourceError` -/
def specResult {κ ι ε εk : Type} (f : Sink κ ι εk) (k : κ) (xs : List ι) (err : Option ε) : κ × Option (StreamResult Unit ε εk) :=
  match feed f k xs with
  | (k', .error e) => (k', some (.error (.sink e)))
  | (k', .ok ()) =>
    (k', some (match err with
      | some e => .error (.source e)
      | none => .ok ()))

/-- the specification as a source (used by the driver to print the oracle through the same consumer
plumbing): it hands `xs` to the callback in one step and then fails with `err`, or ends.
`tryForEachItem specSource f (some (xs, err)) k` is `specResult f k xs err` (theorem `specSource_spec`). -/
def specSource {ι ε : Type} : Source (Option (List ι × Option ε)) ι ε where
  tryForSomeItem f s k :=
    match s with
    | none => (none, k, .ok false)
    | some (xs, err) =>
      match feed f k xs, err with
      | (k', .error e), _ => (none, k', .error (.sink e))
      | (k', .ok ()), some e => (none, k', .error (.source e))
      | (k', .ok ()), none => (none, k', .ok true)
  fuel := fun _ => 2

/-- the part of a script a run must leave untouched ("nothing is taken from the source after the
fault"): everything after the step in which the callback failed / which failed itself -/
def specRest {κ εk ε : Type} (c : List Adapter) (f : Sink κ Item εk) : κ → List (Ev Item ε) → List (Ev Item ε)
  | _, [] => []
  | k, .ok is :: rest =>
    match feed f k (chainItems c is) with
    | (k', .ok ()) => specRest c f k' rest
    | (_, .error _) => rest
  | _, .err _ _ :: rest => rest

/-- `Some(Ok(t))` = a step delivering `[t]`; `Some(Err(e))` = a step failing at once -/
def Ev.ofResult {ι ε : Type} : Except ε ι → Ev ι ε
  | .ok t => .ok [t]
  | .error e => .err [] e

/-- an iterator yielding `items[..k]` as `Ok`, then `Err(e)`, then the rest of the items -/
def faultAt {ι ε : Type} (items : List ι) (k : Nat) (e : ε) : List (Except ε ι) :=
  (items.take k).map .ok ++ .error e :: (items.drop k).map .ok

/-! ## Consumers -/

/-- captured state of the harness's recording closure -/
structure Rec where
  log : List Item
  calls : Nat
  deriving Repr

/-- the recording closure: notes the item, then fails with `payload` iff this is call number
`failAt` (counted from 0) -/
def recSink {εk : Type} (failAt : Option Nat) (payload : εk) : Sink Rec Item εk := fun st i =>
  let st' : Rec := { log := st.log ++ [i], calls := st.calls + 1 }
  if failAt = some st.calls then (st', .error payload) else (st', .ok ())

/-- the infallible recording closure handed to `for_each_item` -/
def recPush (st : Rec) (i : Item) : Rec := { log := st.log ++ [i], calls := st.calls + 1 }

/-- the harness's `Tap`: the outermost stage notes every item handed to the consumer's callback -/
def tap {κ ι εk : Type} (f : Sink κ ι εk) : Sink (List ι × κ) ι εk := fun st i =>
  match f st.2 i with
  | (k', r) => ((st.1 ++ [i], k'), r)

def tapPush {κ ι : Type} (g : κ → ι → κ) : List ι × κ → ι → List ι × κ := fun st i =>
  (st.1 ++ [i], g st.2 i)

/-- a set store behind a term index with `free` remaining slots (`none`: far from full).
`present`: the triples/quads, no duplicates; `known`: the values whose literal is interned
(subject, predicate and graph names are interned beforehand in every scenario generated, so only
the object literal can need a new slot). -/
structure Store where
  present : List Item
  known : List Nat
  free : Option Nat
  deriving Repr

inductive StoreError where
  | indexFull
  deriving Repr, DecidableEq

/-- `SimpleTermIndex::ensure_index` (inmem/src/index.rs): a known term costs nothing; a *new* term
fails with `TermIndexFullError` when the index is full, else takes one slot -/
def Store.ensureIndex (st : Store) (v : Nat) : Except StoreError Store :=
  if st.known.contains v then .ok st
  else match st.free with
    | none => .ok { st with known := v :: st.known }
    | some 0 => .error .indexFull
    | some (n + 1) => .ok { st with known := v :: st.known, free := some n }

/-- `MutableGraph::insert` of `GenericLightGraph`/`GenericFastGraph` (inmem/src/graph.rs):
`ensure_index(s)?; ensure_index(p)?; ensure_index(o)?; Ok(self.triples.insert([..]))` -/
def Store.insert (st : Store) (i : Item) : Store × Except StoreError Bool :=
  match st.ensureIndex i.val with
  | .error e => (st, .error e)
  | .ok st' =>
    if st'.present.contains i then (st', .ok false)
    else ({ st' with present := st'.present ++ [i] }, .ok true)

/-- `MutableGraph::remove`: unknown term ⇒ `Ok(false)`; never fails, never frees an index slot -/
def Store.remove (st : Store) (i : Item) : Store × Except StoreError Bool :=
  if st.present.contains i then ({ st with present := st.present.erase i }, .ok true)
  else (st, .ok false)

/-- the closure of `insert_all` (api/src/graph.rs, dataset.rs):
`|t| { if self.insert_triple(t.spo())? { c += 1; } Ok(()) }` -/
def insertAllSink : Sink (Store × Nat) Item StoreError := fun st t =>
  match st.1.insert t with
  | (g, .error e) => ((g, st.2), .error e)
  | (g, .ok true) => ((g, st.2 + 1), .ok ())
  | (g, .ok false) => ((g, st.2), .ok ())

/-- the closure of `remove_all` -/
def removeAllSink : Sink (Store × Nat) Item StoreError := fun st t =>
  match st.1.remove t with
  | (g, .error e) => ((g, st.2), .error e)
  | (g, .ok true) => ((g, st.2 + 1), .ok ())
  | (g, .ok false) => ((g, st.2), .ok ())

/-- `.and(Ok(c))` -/
def andOk {α ε εk : Type} (r : Option (StreamResult Unit ε εk)) (c : α) : Option (StreamResult α ε εk) :=
  r.map fun
    | .ok () => .ok c
    | .error e => .error e

/-- `MutableGraph::insert_all` / `MutableDataset::insert_all` (= `add_to_graph`/`add_to_dataset`):
`let mut c = 0; src.try_for_each_triple(closure).and(Ok(c))`; the tap records what the closure saw -/
def insertAll {σ ε : Type} (S : Source σ Item ε) (s : σ) (g : Store) :=
  match tryForEachTriple S (tap insertAllSink) s ([], (g, 0)) with
  | (s', (log, (g', c)), r) => (s', log, g', andOk r c)

def removeAll {σ ε : Type} (S : Source σ Item ε) (s : σ) (g : Store) :=
  match tryForEachTriple S (tap removeAllSink) s ([], (g, 0)) with
  | (s', (log, (g', c)), r) => (s', log, g', andOk r c)

/-- `CollectibleGraph::from_triple_source` of the inmem graphs/datasets:
`let mut g = Self::new(); triples.try_for_each_triple(|t| g.insert_triple(t).map(|_| ()))?; Ok(g)` -/
def collectSink : Sink Store Item StoreError := fun g t =>
  match g.insert t with
  | (g', .ok _) => (g', .ok ())
  | (g', .error e) => (g', .error e)

def collectStore {σ ε : Type} (S : Source σ Item ε) (s : σ) (empty : Store) :=
  match tryForEachTriple S (tap collectSink) s ([], empty) with
  | (s', (log, g), r) => (s', log, g, r)

/-- `impl CollectibleGraph for Vec<[T;3]>` (api/src/graph/_foreign_impl.rs):
`triples.for_each_triple(|t| v.push(..)).map_err(SourceError)?; Ok(v)` -/
def collectVec {σ ε : Type} (S : Source σ Item ε) (s : σ) :
    σ × List Item × List Item × Option (StreamResult Unit ε StoreError) :=
  match forEachTriple S (tapPush (fun (v : List Item) t => v ++ [t])) s ([], []) with
  | (s', (log, v), r) =>
    (s', log, v, r.map fun
      | .ok () => .ok ()
      | .error e => .error (.source e))

/-! ### `GenericFastGraph` / `GenericFastDataset`: several indexes over the same statements

`insert` (inmem/src/graph.rs): `ensure_index` ×3, then
`if self.spo.insert(k) { self.pos.insert(k'); self.osp.insert(k''); Ok(true) } else { Ok(false) }`;
`remove` likewise.  Each index is modelled as the set of the items it holds (an index entry is a
permutation of the item's term indices, i.e. determined by the item). -/

structure FastStore where
  spo : List Item
  pos : List Item
  osp : List Item
  known : List Nat
  free : Option Nat
  deriving Repr

/-- `BTreeSet::insert` -/
def setInsert (l : List Item) (x : Item) : List Item := if l.contains x then l else l ++ [x]

def FastStore.toStore (st : FastStore) : Store := { present := st.spo, known := st.known, free := st.free }

def FastStore.insert (st : FastStore) (i : Item) : FastStore × Except StoreError Bool :=
  match st.toStore.ensureIndex i.val with
  | .error e => (st, .error e)
  | .ok ix =>
    let st' : FastStore := { st with known := ix.known, free := ix.free }
    if st'.spo.contains i then (st', .ok false)
    else ({ st' with spo := st'.spo ++ [i], pos := setInsert st'.pos i, osp := setInsert st'.osp i }, .ok true)

def FastStore.remove (st : FastStore) (i : Item) : FastStore × Except StoreError Bool :=
  if st.spo.contains i then
    ({ st with spo := st.spo.erase i, pos := st.pos.erase i, osp := st.osp.erase i }, .ok true)
  else (st, .ok false)

/-- every access path shows the same statements -/
def FastStore.coherent (st : FastStore) : Prop :=
  (∀ x, x ∈ st.pos ↔ x ∈ st.spo) ∧ (∀ x, x ∈ st.osp ↔ x ∈ st.spo)

def FastStore.coherentB (st : FastStore) : Bool :=
  st.pos.all st.spo.contains && st.spo.all st.pos.contains &&
  st.osp.all st.spo.contains && st.spo.all st.osp.contains

/-- the default `insert_all` closure on a fast store -/
def fastInsertAllSink : Sink (FastStore × Nat) Item StoreError := fun st t =>
  match st.1.insert t with
  | (g, .error e) => ((g, st.2), .error e)
  | (g, .ok true) => ((g, st.2 + 1), .ok ())
  | (g, .ok false) => ((g, st.2), .ok ())

def fastRemoveAllSink : Sink (FastStore × Nat) Item StoreError := fun st t =>
  match st.1.remove t with
  | (g, .error e) => ((g, st.2), .error e)
  | (g, .ok true) => ((g, st.2 + 1), .ok ())
  | (g, .ok false) => ((g, st.2), .ok ())

def insertAllFast {σ ε : Type} (S : Source σ Item ε) (s : σ) (g : FastStore) :=
  match tryForEachTriple S (tap fastInsertAllSink) s ([], (g, 0)) with
  | (s', (log, (g', c)), r) => (s', log, g', andOk r c)

/-- a "bulk loading" `insert_all` (NOT what /repo does; seeded change C15-d): only `spo` is fed while
streaming, `pos`/`osp` are derived afterwards — but the stream error is propagated with `?` first -/
def bulkInsertSink : Sink (FastStore × List Item) Item StoreError := fun st t =>
  match st.1.toStore.ensureIndex t.val with
  | .error e => (st, .error e)
  | .ok ix =>
    let g : FastStore := { st.1 with known := ix.known, free := ix.free }
    if g.spo.contains t then ((g, st.2), .ok ()) else (({ g with spo := g.spo ++ [t] }, st.2 ++ [t]), .ok ())

def insertAllBulk {σ ε : Type} (S : Source σ Item ε) (s : σ) (g : FastStore) :
    σ × FastStore × Option (StreamResult Nat ε StoreError) :=
  match tryForEachTriple S bulkInsertSink s (g, []) with
  | (s', (g', added), some (.ok ())) =>
    (s', { g' with pos := added.foldl setInsert g'.pos, osp := added.foldl setInsert g'.osp }, some (.ok added.length))
  | (s', (g', _), some (.error e)) => (s', g', some (.error e))
  | (s', (g', _), none) => (s', g', none)

/-! ### Adapter sinks: `GraphAsDataset` (api/src/dataset/adapter.rs), `DatasetGraph` (api/src/graph/adapter.rs) -/

/-- `GraphAsDatasetMutationError` -/
inductive GadError where
  | graph (e : StoreError)
  | onlyDefaultGraph
  deriving Repr, DecidableEq

/-- `GraphAsDataset::insert`: `if g.is_none() { self.0.insert(s, p, o).map_err(Graph) } else { Err(OnlyDefaultGraph) }`;
the wrapped graph stores the triple -/
def gadInsert (st : Store) (i : Item) : Store × Except GadError Bool :=
  match i with
  | .quad _ (_ + 1) => (st, .error .onlyDefaultGraph)
  | i =>
    match st.insert (.triple i.val) with
    | (g, .ok b) => (g, .ok b)
    | (g, .error e) => (g, .error (.graph e))

/-- the provided `MutableDataset::insert_all` closure on a `GraphAsDataset` -/
def gadInsertAllSink : Sink (Store × Nat) Item GadError := fun st t =>
  match gadInsert st.1 t with
  | (g, .error e) => ((g, st.2), .error e)
  | (g, .ok true) => ((g, st.2 + 1), .ok ())
  | (g, .ok false) => ((g, st.2), .ok ())

def insertAllGad {σ ε : Type} (S : Source σ Item ε) (s : σ) (g : Store) :=
  match tryForEachTriple S (tap gadInsertAllSink) s ([], (g, 0)) with
  | (s', (log, (g', c)), r) => (s', log, g', andOk r c)

/-- `DatasetGraph::insert` / `remove`: `d.insert(s, p, o, g)` / `d.remove(s, p, o, g)` with the adapter's graph name -/
def dsgInsertAllSink (gn : Nat) : Sink (Store × Nat) Item StoreError := fun st t =>
  insertAllSink st (.quad t.val gn)

def dsgRemoveAllSink (gn : Nat) : Sink (Store × Nat) Item StoreError := fun st t =>
  removeAllSink st (.quad t.val gn)

def insertAllDsg {σ ε : Type} (gn : Nat) (S : Source σ Item ε) (s : σ) (g : Store) :=
  match tryForEachTriple S (tap (dsgInsertAllSink gn)) s ([], (g, 0)) with
  | (s', (log, (g', c)), r) => (s', log, g', andOk r c)

def removeAllDsg {σ ε : Type} (gn : Nat) (S : Source σ Item ε) (s : σ) (g : Store) :=
  match tryForEachTriple S (tap (dsgRemoveAllSink gn)) s ([], (g, 0)) with
  | (s', (log, (g', c)), r) => (s', log, g', andOk r c)

/-- `impl CollectibleGraph for HashSet<[T;3], S>` / `BTreeSet<[T;3]>` (and the dataset twins):
`triples.for_each_triple(|t| { s.insert(..); }).map_err(SourceError)?; Ok(s)` -/
def collectSet {σ ε : Type} (S : Source σ Item ε) (s : σ) :
    σ × List Item × List Item × Option (StreamResult Unit ε StoreError) :=
  match forEachTriple S (tapPush (fun (v : List Item) t => if v.contains t then v else v ++ [t])) s ([], []) with
  | (s', (log, v), r) =>
    (s', log, v, r.map fun
      | .ok () => .ok ()
      | .error e => .error (.source e))

/-! ### Streaming (non-pretty) Turtle / TriG / RDF-XML serializers (turtle/src/serializer/{turtle,trig}.rs,
xml/src/serializer.rs through rio/src/serializer.rs)

    let mut tf = Formatter::new(&mut self.write)            // RDF/XML: `.map_err(SinkError)?`
    rio_format_triples(&mut tf, source)?;                   // try_for_each_triple(|t| tf.format(..))
    tf.finish().map_err(SinkError)?;  Ok(self)

What the third-party formatter writes is not modelled: *which* `format` call hits the writer's
limit (or whether the constructor / `finish` does) is observed with the formatter alone and given
as a plan. -/

structure FmtPlan where
  newFails : Bool
  failOnCall : Option Nat
  finishFails : Bool
  deriving Repr

/-- `|t| tf.format(..)`: the state counts the calls -/
def formatSink {εk : Type} (plan : FmtPlan) (payload : εk) : Sink Nat Item εk := fun n _ =>
  if plan.failOnCall = some n then (n + 1, .error payload) else (n + 1, .ok ())

def serializeRio {σ ε εk : Type} (plan : FmtPlan) (payload : εk) (S : Source σ Item ε) (s : σ) :
    σ × List Item × Option (StreamResult Unit ε εk) :=
  if plan.newFails then (s, [], some (.error (.sink payload)))
  else
    match tryForEachTriple S (tap (formatSink plan payload)) s ([], 0) with
    | (s', (log, _), some (.ok ())) =>
      if plan.finishFails then (s', log, some (.error (.sink payload))) else (s', log, some (.ok ()))
    | (s', (log, _), r) => (s', log, r)

/-! ### Serializer over a writer that fails after `limit` bytes -/

/-- the harness's `FailAfter` writer: `out` = bytes accepted so far -/
structure Writer where
  out : List Char
  limit : Nat
  deriving Repr

/-- `io::Write::write_all` on `FailAfter`: accepts bytes while there is room; the call that finds
no room for a non-empty rest fails with the writer's error -/
def Writer.writeAll {εk : Type} (payload : εk) (w : Writer) (buf : List Char) : Writer × Except εk Unit :=
  let room := w.limit - w.out.length
  if buf.length ≤ room then ({ w with out := w.out ++ buf }, .ok ())
  else ({ w with out := w.out ++ buf.take room }, .error payload)

/-- a sequence of `w.write_all(..)?` -/
def Writer.writeSeq {εk : Type} (payload : εk) : Writer → List (List Char) → Writer × Except εk Unit
  | w, [] => (w, .ok ())
  | w, b :: bs =>
    match w.writeAll payload b with
    | (w', .ok ()) => writeSeq payload w' bs
    | (w', .error e) => (w', .error e)

def xsdInteger : String := "http://www.w3.org/2001/XMLSchema#integer"

/-- the `write_all` calls of `write_triple` (turtle/src/serializer/nt.rs) on `<x:s> <x:p> "n"^^xsd:integer`:
`write_term` s, `" "`, `write_term` p, `" "`, `write_term` o (literal: `"`, `quoted_string`, `"^^<`, dt, `>`) -/
def tripleChunks (n : Nat) : List (List Char) :=
  ["<", "x:s", ">", " ", "<", "x:p", ">", " ", "\"", toString n, "\"^^<", xsdInteger, ">"].map String.toList

/-- per-item closure of `NtSerializer::serialize_triples`: `write_triple(w, t)?; w.write_all(b".\n")`;
of `NqSerializer::serialize_quads`: `write_triple(w, tr)?; match gn { None => w.write_all(b".\n"),
Some(t) => { w.write_all(b" ")?; write_term(w, t)?; w.write_all(b".\n") } }` -/
def itemChunks : Item → List (List Char)
  | .triple n => tripleChunks n ++ [".\n".toList]
  | .quad n 0 => tripleChunks n ++ [".\n".toList]
  | .quad n g => tripleChunks n ++ [" ", "<", "x:g" ++ toString g, ">", ".\n"].map String.toList

/-- the closure's `.map_err(|e| io::Error::new(io::ErrorKind::Other, e))` keeps the message -/
def serializeSink {εk : Type} (payload : εk) : Sink Writer Item εk := fun w t =>
  w.writeSeq payload (itemChunks t)

/-- `serialize_triples` / `serialize_quads`: `source.try_for_each_triple(closure).map(|()| self)` -/
def serialize {σ ε εk : Type} (payload : εk) (S : Source σ Item ε) (s : σ) (limit : Nat) :=
  match tryForEachTriple S (tap (serializeSink payload)) s ([], ({ out := [], limit := limit } : Writer)) with
  | (s', (log, w), r) => (s', log, w, r)

end SophiaModel.Source
