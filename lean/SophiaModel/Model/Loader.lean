/-
C19 — executable model of `resource/src/loader/_local.rs` (`LocalLoader::{check,new,ctype}`,
`Loader::get`) over an abstract POSIX file system.

What is modelled, function by function:
* `check` / `new`: namespace ends with '/', path absolute, path `is_dir()` (first error wins).
* `get`: `split('#').next()`, first `(ns, path)` with `iri.starts_with(ns)`, `Path::new(&iri[ns.len()..])`,
  `path.join(subpath)` with the unix semantics of `PathBuf::push` (an absolute right-hand side REPLACES
  the left; otherwise a '/' is inserted unless the left already ends with one), `fs::read`, the
  `NotFound`-only / no-extension-only retry loop over the extension list **regenerated from the source**
  (`Gen/LoaderExts.lean`), the recursive `self.get(alt)` whose errors are swallowed, `ctype`.
* the file system: a finite map from normalised absolute paths (component lists) to file contents /
  directories; `open` walks the path string component by component as the kernel does (`.` and empty
  components skipped, `..` = parent, a missing component = ENOENT, a file in the middle = ENOTDIR,
  component > 255 bytes / path ≥ 4096 bytes = ENAMETOOLONG, a directory at the end = EISDIR on read).
  **Symbolic links are excluded**: `osResolve` is the purely lexical resolution, which is what the walk
  computes when no component is a symlink (`SophiaProofs.C19.read_reads_resolved`).
* links: `Loader::get_resource` / `get_resource_from` / `get_graph` (as "strip the fragment, call `get`"),
  `Resource::get_neighbour` (`to_iri`, same-document test, `loader.get_resource`) and the JSON-LD document
  loader closure `get_graph` installs (`self.get(url)` + content-type test): every entry point of `Resource`
  (`get_resource`, `get_any_resource`, `get_all_resources`, `get_resource_items`, `pred_*`, the typed
  variants) funnels into `get_neighbour`.  `SophiaModel.Gen.LoaderSites` (regenerated) lists every file-system
  call site of the crate: `SophiaProofs.C19.reads_only_in_get` pins it to the one `read` inside `get`.
* `guard`: the repair of notes/fixes/C19-confine.diff (reject a remainder with a `..`/root component).
  `getW` is the code as written (no guard), `get'` the repaired code, `getCur` whichever of the two the
  extractor found in /repo — the driver runs `getCur`.
-/
import SophiaModel.Basic.Term
import SophiaModel.Gen.LoaderExts

namespace SophiaModel.Loader
open SophiaModel

/-! ### paths -/

/-- prepend a character to the first component -/
def consHead (c : Char) : List Str → List Str
  | [] => [[c]]
  | h :: t => (c :: h) :: t

/-- split on '/' (what the kernel's path walk and `Path::components` see); never empty -/
def splitSlash : Str → List Str
  | [] => [[]]
  | c :: cs => if c = '/' then [] :: splitSlash cs else consHead c (splitSlash cs)

def dot : Str := ['.']
def dotdot : Str := ['.', '.']

/-- one step of lexical resolution on a normalised location -/
def rstep (cur : List Str) (c : Str) : List Str :=
  if c = [] ∨ c = dot then cur
  else if c = dotdot then cur.dropLast
  else cur ++ [c]

/-- lexical resolution of `.`, `..`, `//` from a normalised location (`..` at the root stays there) -/
def resolveFrom (cur : List Str) (comps : List Str) : List Str := comps.foldl rstep cur

/-- the location an absolute path string denotes when no component is a symbolic link -/
def osResolve (p : Str) : List Str := resolveFrom [] (splitSlash p)

/-- `PathBuf::join` / `push` on unix -/
def joinPath (dir rem : Str) : Str :=
  if rem.head? = some '/' then rem
  else
    let needSep : Bool := match dir.getLast? with
      | some c => c != '/'
      | none => false
    if needSep then dir ++ '/' :: rem else dir ++ rem

def utf8Len (s : Str) : Nat := (s.map Char.utf8Size).sum

/-! ### abstract file system -/

inductive Node
  | file (content : Str)
  | dir
  deriving DecidableEq, Repr

/-- finite map location → node; every proper prefix of a listed location is a directory, and so is
the root -/
structure FS where
  entries : List (List Str × Node)

def FS.lookup (fs : FS) (p : List Str) : Option Node :=
  if p = [] then some .dir else
  match fs.entries.find? (fun e => e.1 = p) with
  | some e => some e.2
  | none => if fs.entries.any (fun e => p.isPrefixOf e.1) then some .dir else none

inductive OpenErr
  | notFound | notDir | isDir | nameTooLong | nul | loop
  deriving DecidableEq, Repr

def NAME_MAX : Nat := 255
def PATH_MAX : Nat := 4096

/-- the kernel's path walk from directory `cur` (no symlinks) -/
def walk (fs : FS) : List Str → List Str → Except OpenErr (List Str × Node)
  | cur, [] => .ok (cur, .dir)
  | cur, c :: rest =>
    if c = [] ∨ c = dot then walk fs cur rest
    else if c = dotdot then walk fs cur.dropLast rest
    else if utf8Len c > NAME_MAX then .error .nameTooLong
    else match fs.lookup (cur ++ [c]) with
      | none => .error .notFound
      | some .dir => walk fs (cur ++ [c]) rest
      | some (.file d) => if rest = [] then .ok (cur ++ [c], .file d) else .error .notDir

def stat (fs : FS) (p : Str) : Except OpenErr (List Str × Node) :=
  if '\x00' ∈ p then .error .nul
  else if utf8Len p ≥ PATH_MAX then .error .nameTooLong
  else walk fs [] (splitSlash p)

/-- `std::fs::read` -/
def osRead (fs : FS) (p : Str) : Except OpenErr Str :=
  match stat fs p with
  | .ok (_, .file d) => .ok d
  | .ok (_, .dir) => .error .isDir
  | .error e => .error e

/-- `Path::is_dir` -/
def isDir (fs : FS) (p : Str) : Bool :=
  match stat fs p with
  | .ok (_, .dir) => true
  | _ => false

/-! ### `LocalLoader::check` / `new` -/

abbrev Cfg := List (Str × Str)

inductive NewErr
  | iriMustEndWithSlash | pathMustBeAbsolute | pathMustBeDirectory
  deriving DecidableEq, Repr

def check (fs : FS) (nd : Str × Str) : Except NewErr (Str × Str) :=
  if nd.1.getLast? ≠ some '/' then .error .iriMustEndWithSlash
  else if nd.2.head? ≠ some '/' then .error .pathMustBeAbsolute
  else if !isDir fs nd.2 then .error .pathMustBeDirectory
  else .ok nd

/-- `caches.into_iter().map(check).collect::<Result<Vec<_>, _>>()`: stops at the first error -/
def new (fs : FS) : List (Str × Str) → Except NewErr Cfg
  | [] => .ok []
  | nd :: rest =>
    match check fs nd with
    | .error e => .error e
    | .ok x =>
      match new fs rest with
      | .error e => .error e
      | .ok xs => .ok (x :: xs)

/-- `LocalLoader::add`: `self.caches.push(Self::check(iri, path)?)` -/
def add (fs : FS) (cfg : Cfg) (nd : Str × Str) : Except NewErr Cfg :=
  match check fs nd with
  | .error e => .error e
  | .ok x => .ok (cfg ++ [x])

/-- the loaders a program can hold: `LocalLoader::default()`, `new(..)`, then any number of `add(..)`
(the `caches` field is private and nothing else writes it; `Clone`/`arced` keep it) -/
inductive Reachable (fs : FS) : Cfg → Prop
  | default : Reachable fs []
  | new {caches : List (Str × Str)} {cfg : Cfg} : Loader.new fs caches = .ok cfg → Reachable fs cfg
  | add {cfg cfg' : Cfg} {nd : Str × Str} : Reachable fs cfg → Loader.add fs cfg nd = .ok cfg' → Reachable fs cfg'

/-- the part of the `check` invariant that does not depend on the file system -/
def CfgOk (cfg : Cfg) : Prop := ∀ nd ∈ cfg, nd.1.getLast? = some '/' ∧ nd.2.head? = some '/'

/-! ### `ctype`, retry list -/

structure Features where
  jsonld : Bool
  xml : Bool

def gateOn (f : Features) : Option Str → Bool
  | none => true
  | some g => if g = ['j', 's', 'o', 'n', 'l', 'd'] then f.jsonld else if g = ['x', 'm', 'l'] then f.xml else false

def activeExts (f : Features) : List Str :=
  (Gen.LoaderExts.exts.filter (fun e => gateOn f e.2)).map (·.1)

def ctype (f : Features) (iri : Str) : Str :=
  match Gen.LoaderExts.ctypes.find? (fun r => gateOn f r.2.2 && r.1.isSuffixOf iri) with
  | some r => r.2.1
  | none => Gen.LoaderExts.ctypeDefault

/-! ### `Loader::get` -/

/-- `iri.as_str().split('#').next().unwrap()` -/
def stripFragment (iri : Str) : Str := iri.takeWhile (· ≠ '#')

/-- `iri.as_bytes()[iri.rfind(['.', '/']).unwrap_or(0)] != b'.'`.  When neither occurs the byte at
index 0 is inspected, which then is not a '.', so the answer is `true`; the index panics only for
an empty `iri`, impossible after a namespace (ending with '/') matched. -/
def noExt (iri : Str) : Bool :=
  match iri.reverse.find? (fun c => c = '.' || c = '/') with
  | some c => c != '.'
  | none => true

/-- the remainder is acceptable to the guard of the repair: no `RootDir`, no `ParentDir` component -/
def safeRem (rem : Str) : Bool :=
  rem.head? != some '/' && !(splitSlash rem).contains dotdot

inductive GetErr
  | unsupported | notFound | io (e : OpenErr)
  deriving DecidableEq, Repr

inductive Outcome
  | ok (opened : Str) (data : Str) (ctype : Str)
  | err (e : GetErr)
  deriving DecidableEq, Repr

structure Params where
  guard : Bool
  feats : Features

/-- `for ext in [...] { if let Ok(res) = self.get(alt) { return Ok(res) } }` -/
def firstOk : List Str → (Str → Outcome) → Option Outcome
  | [], _ => none
  | e :: es, f =>
    match f e with
    | .ok p d c => some (.ok p d c)
    | .err _ => firstOk es f

/-- first configured pair whose namespace is a string prefix of the IRI -/
def findNs (cfg : Cfg) (iri : Str) : Option (Str × Str) := cfg.find? (fun nd => nd.1.isPrefixOf iri)

/-- the body of `get`; `recur` is the recursive `self.get(..)` -/
def getStep (P : Params) (recur : Str → Outcome) (cfg : Cfg) (fs : FS) (iri0 : Str) : Outcome :=
  let iri := stripFragment iri0
  match findNs cfg iri with
  | none => .err .unsupported
  | some (ns, dir) =>
    let rem := iri.drop ns.length
    if P.guard && !safeRem rem then .err .unsupported
    else
      let p := joinPath dir rem
      match osRead fs p with
      | .ok data => .ok p data (ctype P.feats iri)
      | .error .notFound =>
        if noExt iri then
          match firstOk (activeExts P.feats) (fun ext => recur (iri ++ '.' :: ext)) with
          | some r => r
          | none => .err .notFound
        else .err .notFound
      | .error e => .err (.io e)

/-- `get` with recursion depth `fuel`: at depth 0 the nested call is never needed because the
retried IRI has an extension (`SophiaProofs.C19.fuel_irrelevant`) -/
def getG (P : Params) : Nat → Cfg → FS → Str → Outcome
  | 0, cfg, fs, iri => getStep P (fun _ => .err .notFound) cfg fs iri
  | n + 1, cfg, fs, iri => getStep P (getG P n cfg fs) cfg fs iri

def allFeats : Features := ⟨true, true⟩

/-- the code as written -/
def getW (f : Features) : Cfg → FS → Str → Outcome := getG ⟨false, f⟩ 1
/-- the repaired code (notes/fixes/C19-confine.diff) -/
def get' (f : Features) : Cfg → FS → Str → Outcome := getG ⟨true, f⟩ 1
/-- the code currently in /repo, as recognised by the extractor -/
def getCur (f : Features) : Cfg → FS → Str → Outcome := getG ⟨Gen.LoaderExts.guardPresent, f⟩ 1

/-! ### links followed in loaded data -/

/-- `Loader::get_resource(iri)` = `get_resource_from(iri, iri.split('#').next())`, which strips the
fragment again and calls `get_graph(base)`, whose first action is `self.get(base)` (which strips it a
third time): the bytes a followed link yields are those of `get` on the IRI found in the data. -/
def getResourceRead (g : Cfg → FS → Str → Outcome) (cfg : Cfg) (fs : FS) (iri : Str) : Outcome :=
  g cfg fs (stripFragment (stripFragment iri))

inductive Follow
  /-- `to_iri` failed (`ResourceError::IriNotAbsolute`): nothing is read -/
  | notAbsolute
  /-- same base as the current document (or no base): a `Resource` on the graph already loaded -/
  | sameDoc
  /-- `self.loader.get_resource(iri)` -/
  | loaded (o : Outcome)
  deriving DecidableEq, Repr

/-- `Resource::get_neighbour` on an IRI term `t` of a resource whose graph was loaded from `base`
(`isAbs` = `sophia_iri::is_absolute_iri_ref`, a parameter: the theorems hold for every such test) -/
def getNeighbour (isAbs : Str → Bool) (g : Cfg → FS → Str → Outcome) (cfg : Cfg) (fs : FS)
    (base : Option Str) (t : Str) : Follow :=
  if !isAbs t then .notAbsolute
  else match base with
    | some b => if stripFragment t ≠ b then .loaded (getResourceRead g cfg fs t) else .sameDoc
    | none => .sameDoc

def ldJson : Str := "application/ld+json".toList

/-- the document loader `get_graph` hands to the JSON-LD processor:
`let (content, ctype) = self.get(url)?; if ctype == "application/ld+json" { Ok(content) } else { Err(..) }` -/
def ctxFetch (g : Cfg → FS → Str → Outcome) (cfg : Cfg) (fs : FS) (url : Str) : Option (Str × Str) :=
  match g cfg fs url with
  | .ok p d ct => if ct = ldJson then some (p, d) else none
  | .err _ => none

/-! ### `Resource` over a loaded graph: every entry point that follows links

`resource/_struct.rs` + `_iter.rs`.  A graph is the list of triples in document order (the harness
collects into a `Vec`, `triples_matching` scans it in order); `Res` = `Resource {id, base, graph}`, the
loader being `(cfg, fs)`.  Each entry point is modelled with the list of `get_neighbour` calls it
PERFORMS (the iterators are lazy: `get_resource` evaluates at most two values, `get_any_resource` one). -/

inductive RTerm
  | iri (s : Str)
  | bnode (s : Str)
  | lit (s : Str)
  deriving DecidableEq, Repr

abbrev RGraph := List (RTerm × RTerm × RTerm)

structure Res where
  id : RTerm
  base : Option Str
  graph : RGraph

/-- `get_all_terms`: objects of `(id, p, ?)` -/
def getAllTerms (r : Res) (p : RTerm) : List RTerm :=
  (r.graph.filter (fun t => t.1 = r.id && t.2.1 = p)).map (·.2.2)

/-- `pred_all_terms`: subjects of `(?, p, id)` -/
def predAllTerms (r : Res) (p : RTerm) : List RTerm :=
  (r.graph.filter (fun t => t.2.2 = r.id && t.2.1 = p)).map (·.1)

inductive RErr
  | noValue | multiple
  deriving DecidableEq, Repr

/-- `let first = it.next(); if it.next().is_some() { Err(UnexpectedMultipleValueFor) } else
{ first.ok_or(NoValueFor) }` -/
def unique {α : Type} : List α → Except RErr α
  | [] => .error .noValue
  | [x] => .ok x
  | _ => .error .multiple

structure Env where
  isAbs : Str → Bool
  g : Cfg → FS → Str → Outcome
  cfg : Cfg
  fs : FS

/-- `get_neighbour(Ok(t))`: only IRI terms can lead to another document -/
def neighbour (E : Env) (r : Res) : RTerm → Follow
  | .iri t => getNeighbour E.isAbs E.g E.cfg E.fs r.base t
  | _ => .sameDoc

/-- `get_all_resources` / `pred_all_resources`, fully consumed -/
def getAllResources (E : Env) (r : Res) (p : RTerm) : List Follow := (getAllTerms r p).map (neighbour E r)
def predAllResources (E : Env) (r : Res) (p : RTerm) : List Follow := (predAllTerms r p).map (neighbour E r)

/-- `get_resource`: (result, follows performed — the second `next()` loads a second value, if any) -/
def getResource (E : Env) (r : Res) (p : RTerm) : Except RErr Follow × List Follow :=
  (unique (getAllResources E r p), ((getAllTerms r p).take 2).map (neighbour E r))
def predResource (E : Env) (r : Res) (p : RTerm) : Except RErr Follow × List Follow :=
  (unique (predAllResources E r p), ((predAllTerms r p).take 2).map (neighbour E r))

/-- `get_any_resource`: `get_all_resources(p).next()` -/
def getAnyResource (E : Env) (r : Res) (p : RTerm) : Option Follow × List Follow :=
  ((getAllResources E r p).head?, ((getAllTerms r p).take 1).map (neighbour E r))
def predAnyResource (E : Env) (r : Res) (p : RTerm) : Option Follow × List Follow :=
  ((predAllResources E r p).head?, ((predAllTerms r p).take 1).map (neighbour E r))

def getTerm (r : Res) (p : RTerm) : Except RErr RTerm := unique (getAllTerms r p)

/-- `LadderCursor::next_apply` iterated at most `fuel` times (the Rust iterator is lazy and does not detect
cycles): the item terms it applies `get_neighbour` to -/
def ladderTerms (first rest : RTerm) : Nat → Res → List RTerm
  | 0, _ => []
  | n + 1, c =>
    match getTerm c first with
    | .error _ => []
    | .ok v =>
      match getTerm c rest with
      | .error .noValue => [v]
      | .error .multiple => []
      | .ok nx => v :: ladderTerms first rest n { c with id := nx }

def rdfNs : String := "http://www.w3.org/1999/02/22-rdf-syntax-ns#"
def rdfFirst : RTerm := .iri (rdfNs ++ "first").toList
def rdfRest : RTerm := .iri (rdfNs ++ "rest").toList

/-- `get_term_items` -/
def getTermItems (r : Res) (p : RTerm) (fuel : Nat) : List RTerm :=
  match getTerm r p with
  | .ok id => ladderTerms rdfFirst rdfRest fuel { r with id := id }
  | .error _ => []

/-- `get_resource_items` (`LadderResourceIterator`), first `fuel` steps -/
def getResourceItems (E : Env) (r : Res) (p : RTerm) (fuel : Nat) : List Follow :=
  (getTermItems r p fuel).map (neighbour E r)

/-- `x` occurs in some position of some triple -/
def Occurs (g : RGraph) (x : RTerm) : Prop := ∃ t ∈ g, x = t.1 ∨ x = t.2.1 ∨ x = t.2.2

/-! ### symbolic links: the assumption made explicit

The property (and every theorem above) is about the file system WITHOUT symbolic links.  This section
extends the abstract file system with links so that the assumption can be (a) shown to be exactly what
separates the two (`walkL_no_links`: without links the extended walk IS the walk above), (b) shown to be
necessary (`SophiaProofs.C19.symlink_assumption_necessary`) and (c) exercised against the real code (`y`
requests: the driver predicts what the OS does with the path `get` opens). -/

structure FSL where
  base : FS
  /-- location of the link ↦ its target string -/
  links : List (List Str × Str)

def FSL.linkAt (fs : FSL) (p : List Str) : Option Str := (fs.links.find? (fun e => e.1 = p)).map (·.2)

/-- the kernel's path walk with symbolic links: a link component is replaced by the components of its
target (an absolute target restarts from the root); `fuel` bounds the number of steps (ELOOP) -/
def walkL (fs : FSL) : Nat → List Str → List Str → Except OpenErr (List Str × Node)
  | 0, _, _ => .error .loop
  | _ + 1, cur, [] => .ok (cur, .dir)
  | n + 1, cur, c :: rest =>
    if c = [] ∨ c = dot then walkL fs n cur rest
    else if c = dotdot then walkL fs n cur.dropLast rest
    else if utf8Len c > NAME_MAX then .error .nameTooLong
    else match fs.linkAt (cur ++ [c]) with
      | some t =>
        if t.head? = some '/' then walkL fs n [] (splitSlash t ++ rest)
        else walkL fs n cur (splitSlash t ++ rest)
      | none =>
        match fs.base.lookup (cur ++ [c]) with
        | none => .error .notFound
        | some .dir => walkL fs n (cur ++ [c]) rest
        | some (.file d) => if rest = [] then .ok (cur ++ [c], .file d) else .error .notDir

def statL (fs : FSL) (fuel : Nat) (p : Str) : Except OpenErr (List Str × Node) :=
  if '\x00' ∈ p then .error .nul
  else if utf8Len p ≥ PATH_MAX then .error .nameTooLong
  else walkL fs fuel [] (splitSlash p)

def osReadL (fs : FSL) (fuel : Nat) (p : Str) : Except OpenErr Str :=
  match statL fs fuel p with
  | .ok (_, .file d) => .ok d
  | .ok (_, .dir) => .error .isDir
  | .error e => .error e

/-- `getStep` with the `read` of the file system as a parameter (`getStepR_osRead`: instantiated with
`osRead fs` it is `getStep`, by `rfl`) -/
def getStepR (P : Params) (rd : Str → Except OpenErr Str) (recur : Str → Outcome) (cfg : Cfg) (iri0 : Str) : Outcome :=
  let iri := stripFragment iri0
  match findNs cfg iri with
  | none => .err .unsupported
  | some (ns, dir) =>
    let rem := iri.drop ns.length
    if P.guard && !safeRem rem then .err .unsupported
    else
      let p := joinPath dir rem
      match rd p with
      | .ok data => .ok p data (ctype P.feats iri)
      | .error .notFound =>
        if noExt iri then
          match firstOk (activeExts P.feats) (fun ext => recur (iri ++ '.' :: ext)) with
          | some r => r
          | none => .err .notFound
        else .err .notFound
      | .error e => .err (.io e)

/-- the code in /repo over a file system with symbolic links -/
def getCurL (f : Features) (cfg : Cfg) (fs : FSL) (fuel : Nat) (iri : Str) : Outcome :=
  let P : Params := ⟨Gen.LoaderExts.guardPresent, f⟩
  getStepR P (osReadL fs fuel) (getStepR P (osReadL fs fuel) (fun _ => .err .notFound) cfg) cfg iri

/-! ### confinement -/

/-- `p` denotes a location at or below the location `dir` denotes -/
def Inside (dir p : Str) : Prop := osResolve dir <+: osResolve p

instance (dir p : Str) : Decidable (Inside dir p) :=
  decidable_of_iff _ List.isPrefixOf_iff_prefix

/-- the opened path is inside a directory whose namespace prefixes the (fragment-less) IRI -/
def ConfinedAt (cfg : Cfg) (iri0 p : Str) : Prop :=
  ∃ nd ∈ cfg, nd.1 <+: stripFragment iri0 ∧ Inside nd.2 p

instance (a b : Str) : Decidable (a <+: b) := decidable_of_iff _ List.isPrefixOf_iff_prefix

instance (cfg : Cfg) (iri0 p : Str) : Decidable (ConfinedAt cfg iri0 p) := by
  unfold ConfinedAt; infer_instance

/-- the remainder `get` computes for this IRI, if a namespace matches -/
def remainder (cfg : Cfg) (iri0 : Str) : Option Str :=
  (findNs cfg (stripFragment iri0)).map (fun nd => (stripFragment iri0).drop nd.1.length)

/-- the decidable side condition of `confined_partial`: the remainder has no `..` component and does
not start with '/' -/
def SafeIri (cfg : Cfg) (iri0 : Str) : Prop :=
  ∀ rem, remainder cfg iri0 = some rem → safeRem rem = true

instance (cfg : Cfg) (iri0 : Str) : Decidable (SafeIri cfg iri0) := by
  unfold SafeIri
  cases h : remainder cfg iri0 with
  | none => exact isTrue (by intro r hr; cases hr)
  | some r =>
    exact if hs : safeRem r = true then isTrue (by intro r' hr'; cases hr'; exact hs)
      else isFalse (fun H => hs (H r rfl))

end SophiaModel.Loader
