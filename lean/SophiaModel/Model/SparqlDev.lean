/-
C13 — the algebra of `Model/SparqlSpec.lean` with five *named, switchable deviations*, one per
finding (findings/C13.json: `projLeak`, `graphPrebind`, `ebvStrict` are known findings; `emptyNamed`
and `orStrict` were repaired in /repo by d984918 and e4da433 and are kept so that a regression is
named in the report — nothing matches them any more, so it is a VIOLATION).  `evalQueryD {}` (no deviation) is the specification itself
(`SophiaProofs.C13.evalD_none`); the driver uses the other instances only to *attribute* an
oracle failure: a failure is a known finding only if the engine's answer is exactly the answer of
the specification under a (smallest) set of these deviations.  Nothing here is used as an oracle.

  projLeak      `Project` does not remove the hidden variables from the solutions: an outer
                FILTER / BIND of a sub-select still sees them            (exec.rs `project`)
  graphPrebind  `GRAPH ?g { P }` evaluates P with ?g already bound instead of joining afterwards:
                FILTER / BIND inside P see ?g, and `BIND(.. AS ?g)` inside P is refused with
                `Override`                                               (exec.rs `graph_rec`)
  emptyNamed    `GRAPH ?g { P }` over a dataset without named graphs evaluates P once against
                the empty graph, ?g unbound, instead of yielding nothing (exec.rs `graph`)
  orStrict      `A || B`, `A && B` raise an error as soon as A or B *raises* one (unbound
                variable, type error), even when the other operand decides  (expression.rs `Or`/`And`)
  ebvStrict     the effective boolean value of an ill-typed xsd:integer is an error instead of
                false                                                    (value.rs `try_from_literal`)
-/
import SophiaModel.Model.SparqlSpec

namespace SophiaModel.SparqlDev
open SophiaModel Term SparqlSpec

structure Dev where
  projLeak : Bool := false
  graphPrebind : Bool := false
  emptyNamed : Bool := false
  orStrict : Bool := false
  ebvStrict : Bool := false
  inStrict : Bool := false
  ifEbvFalse : Bool := false
  existsSwallow : Bool := false
  deriving Repr, DecidableEq, Inhabited

def ebvD (d : Dev) (t : Term) : Option Bool :=
  match t with
  | .lit lex dt =>
    if d.ebvStrict && dt = xsdInteger && (parseInteger lex).isNone then none else ebv t
  | _ => ebv t

def evalExprD (d : Dev) (μ : Mu) : Expr → Option Term
  | .const t => some t
  | .var x => μ.get (.var x)
  | .or a b =>
    let x := evalExprD d μ a
    let y := evalExprD d μ b
    if d.orStrict && (x.isNone || y.isNone) then none
    else (or3 (x.bind (ebvD d)) (y.bind (ebvD d))).map boolTerm
  | .and a b =>
    let x := evalExprD d μ a
    let y := evalExprD d μ b
    if d.orStrict && (x.isNone || y.isNone) then none
    else (and3 (x.bind (ebvD d)) (y.bind (ebvD d))).map boolTerm
  | .eq a b => do let x ← evalExprD d μ a; let y ← evalExprD d μ b; (opEq x y).map boolTerm
  | .sameTerm a b => do let x ← evalExprD d μ a; let y ← evalExprD d μ b; pure (boolTerm (termEq x y))
  | .lt a b => do let x ← evalExprD d μ a; let y ← evalExprD d μ b; (opLt x y).map boolTerm
  | .not a => do let x ← evalExprD d μ a; let v ← ebvD d x; pure (boolTerm (!v))
  | .bound x => some (boolTerm (μ.get (.var x)).isSome)
  | .call f a => do let x ← evalExprD d μ a; callFunc f x
  | .cmp op a b => do let x ← evalExprD d μ a; let y ← evalExprD d μ b; (opOrd x y).map (fun o => boolTerm (op.test o))
  | .arith op a b => do let x ← evalExprD d μ a; let y ← evalExprD d μ b; opArith op x y
  | .neg a => do let x ← evalExprD d μ a; opNeg x
  | .pos a => do let x ← evalExprD d μ a; opPos x
  | .ite c t e => do
    let x ← evalExprD d μ c
    if d.ifEbvFalse then (if (ebvD d x).getD false then evalExprD d μ t else evalExprD d μ e)
    else do
      let v ← ebvD d x
      if v then evalExprD d μ t else evalExprD d μ e
  | .inl a e rest =>
    if d.inStrict then do
      let x ← evalExprD d μ a
      let r := (evalExprD d μ e).bind (fun y => opEq x y)
      if r != some false then r.map boolTerm else evalExprD d μ rest
    else
      (or3 (do let x ← evalExprD d μ a; let y ← evalExprD d μ e; opEq x y) ((evalExprD d μ rest).bind (ebvD d))).map boolTerm
  | .coalesce a rest => (evalExprD d μ a).or (evalExprD d μ rest)
  | .err => none

def holdsD (d : Dev) (e : Expr) (μ : Mu) : Bool := ((evalExprD d μ e).bind (ebvD d)) == some true

/-- the variable list the engine attaches to a result; `sk` = variables of the seed -/
def varsD (d : Dev) : GP → List Str → List Str
  | .bgp ps, sk => sk ++ ps.flatMap TP.vars
  | .filter _ p, sk => varsD d p sk
  | .filterExists _ _ p, sk => varsD d p sk
  | .union l r, sk => varsD d l sk ++ varsD d r sk
  | .graph (.var x) p, sk =>
    if d.graphPrebind then (if sk.contains x then varsD d p sk else varsD d p (x :: sk))
    else x :: varsD d p sk
  | .graph (.iri _) p, sk => varsD d p sk
  | .extend p x _, sk => x :: varsD d p sk
  | .orderBy p, sk => varsD d p sk
  | .project _ xs, _ => xs
  | .distinct p, sk => varsD d p sk
  | .slice p _ _, sk => varsD d p sk
  | _, _ => []

def seedVars (seed : Mu) : List Str := seed.filterMap (fun kt => match kt.1 with | .var x => some x | .bn _ => none)

/-- the decision of FILTER [NOT] EXISTS from the evaluation of its pattern; a refusal inside is
swallowed (= no solution) under `existsSwallow` -/
def existsKeepD (d : Dev) (neg : Bool) : Except Err (List Mu) → Except Err Bool
  | .ok r => .ok ((!r.isEmpty) != neg)
  | .error e => if d.existsSwallow then .ok neg else .error e

/-- `SparqlSpec.eval` with the deviations of `d`; `seed` is non-empty only under `graphPrebind` -/
def evalD (d : Dev) (D : List Quad) : GP → Graph → Mu → Except Err (List Mu)
  | .bgp ps, G, seed => .ok ((instancesFrom seed G ps).map dropBn)
  | .union l r, G, seed => do
    let a ← evalD d D l G seed
    let b ← evalD d D r G seed
    pure (a ++ b)
  | .filter e p, G, seed => do
    let Ω ← evalD d D p G seed
    pure (Ω.filter (holdsD d e))
  | .filterExists neg pat p, G, seed => do
    let Ω ← evalD d D p G seed
    let keep ← Ω.mapM (fun μ => existsKeepD d neg (evalD d D pat G μ))
    pure ((Ω.zip keep).filterMap (fun x => if x.2 then some x.1 else none))
  | .graph (.iri n) p, _, seed => evalD d D p (namedGraph D (.iri n)) seed
  | .graph (.var x) p, _, seed =>
    match seed.get (.var x) with
    | some n => evalD d D p (namedGraph D n) seed
    | none =>
      let names := graphNames D
      if d.emptyNamed && names.isEmpty then evalD d D p [] seed
      else names.foldr (fun n acc => do
        let Ω ← (if d.graphPrebind then evalD d D p (namedGraph D n) ((Key.var x, n) :: seed)
                 else (evalD d D p (namedGraph D n) seed).map (fun Ω => join [[(Key.var x, n)]] Ω))
        let rest ← acc
        pure (Ω ++ rest)) (.ok [])
  | .extend p x e, G, seed => do
    let Ω ← evalD d D p G seed
    if (varsD d p (seedVars seed)).contains x then throw (.rebind x)
    pure (Ω.map (fun μ => match evalExprD d μ e with
      | some t => (Key.var x, t) :: μ
      | none => μ))
  | .orderBy p, G, seed => evalD d D p G seed
  | .project p xs, G, seed => do
    let Ω ← evalD d D p G seed
    pure (if d.projLeak then Ω else Ω.map (projectMu xs))
  | .distinct p, G, seed => do
    let Ω ← evalD d D p G seed
    let vs := varsD d p (seedVars seed)
    pure (if d.projLeak then dedupBy (fun a b => muEq (projectMu vs a) (projectMu vs b)) Ω else dedupBy muEq Ω)
  | .slice p start len, G, seed => do
    let Ω ← evalD d D p G seed
    pure (sliceList Ω start len)
  | _, _, _ => .error .unsupported

/-- the fragment check when refusals inside EXISTS are swallowed: the EXISTS patterns are not looked at -/
def inFragmentSw : GP → Bool
  | .bgp _ => true
  | .filter _ p => inFragmentSw p
  | .filterExists _ _ p => inFragmentSw p
  | .union l r => inFragmentSw l && inFragmentSw r
  | .graph _ p => inFragmentSw p
  | .extend p _ _ => inFragmentSw p
  | .orderBy p => inFragmentSw p
  | .project p _ => inFragmentSw p
  | .distinct p => inFragmentSw p
  | .slice p _ _ => inFragmentSw p
  | _ => false

def fragD (d : Dev) (p : GP) : Bool := if d.existsSwallow then inFragmentSw p else inFragment p

def evalQueryD (d : Dev) (D : List Quad) : Query → Answer
  | .select none p =>
    if fragD d p then
      match evalD d D p (defaultGraph D) [] with
      | .ok Ω => .rows (varsD d p []) Ω
      | .error e => .err e
    else .err .unsupported
  | .ask none p =>
    if fragD d p then
      match evalD d D p (defaultGraph D) [] with
      | .ok Ω => .bool (!Ω.isEmpty)
      | .error e => .err e
    else .err .unsupported
  | .select (some ⟨froms, none⟩) p =>
    if fragD d p then
      match evalD d (fromDataset D froms) p (defaultGraph (fromDataset D froms)) [] with
      | .ok Ω => .rows (varsD d p []) Ω
      | .error e => .err e
    else .err .unsupported
  | .ask (some ⟨froms, none⟩) p =>
    if fragD d p then
      match evalD d (fromDataset D froms) p (defaultGraph (fromDataset D froms)) [] with
      | .ok Ω => .bool (!Ω.isEmpty)
      | .error e => .err e
    else .err .unsupported
  | _ => .err .unsupported

/-- all deviation sets, smallest first, with their names -/
def Dev.names (d : Dev) : List String :=
  (if d.projLeak then ["projLeak"] else []) ++ (if d.graphPrebind then ["graphPrebind"] else []) ++
  (if d.emptyNamed then ["emptyNamed"] else []) ++ (if d.orStrict then ["orStrict"] else []) ++
  (if d.ebvStrict then ["ebvStrict"] else []) ++ (if d.inStrict then ["inStrict"] else []) ++
  (if d.ifEbvFalse then ["ifEbvFalse"] else []) ++ (if d.existsSwallow then ["existsSwallow"] else [])

def Dev.all : List Dev :=
  let bs := [false, true]
  let l := bs.flatMap fun a => bs.flatMap fun b => bs.flatMap fun c => bs.flatMap fun e => bs.flatMap fun f =>
    bs.flatMap fun g => bs.flatMap fun h => bs.map fun i =>
    ({ projLeak := a, graphPrebind := b, emptyNamed := c, orStrict := e, ebvStrict := f,
       inStrict := g, ifEbvFalse := h, existsSwallow := i } : Dev)
  l.mergeSort (fun x y => x.names.length ≤ y.names.length)

end SophiaModel.SparqlDev
