/-
C13 — the SPARQL 1.1 algebra (§17 expressions, §18 evaluation) for the fragment
   BGP (variables, blank-node placeholders, quoted-triple patterns) · Union · Graph · Filter ·
   Extend · Distinct · Project · Slice · (OrderBy as a multiset) · ASK
written from the Recommendation, *not* from sparql/src.  This file also holds the abstract
syntax shared with the implementation model (`Model/Sparql.lean`): the harness parses the query
text with the real `spargebra` and ships this algebra, so spargebra's parser and its
translation to the algebra are outside the model.

Conventions
* an RDF graph is the list of its triples, a dataset the list of its quads (`g = none` = default
  graph), both duplicate-free w.r.t. RDF term equality `termEq` (hypothesis `TripleNodup` where a
  theorem needs it); multisets of solutions are lists compared up to permutation;
* a solution mapping is an association list `Key → Term`; blank-node placeholders of a BGP are
  existential variables: they get keys `Key.bn`, live only inside `[[BGP]]` and are projected
  away, so that the multiplicity of μ is the number of instance mappings σ (§18.3.1);
* expression errors are `none`.
-/
import SophiaModel.Basic.TermOrder

namespace SophiaModel.SparqlSpec
open SophiaModel Term

/-! ## Abstract syntax (spargebra's `GraphPattern` / `Expression`, payload reduced to what the
modelled fragment reads) -/

/-- a triple pattern; components are `Term`s in which `.var` is a variable, `.bnode` a blank-node
placeholder and `.triple` a quoted-triple pattern -/
structure TP where
  s : Term
  p : Term
  o : Term
  deriving Repr, DecidableEq, Inhabited

/-- the modelled part of `spargebra::algebra::Function` -/
inductive Func | str | lang | datatype | isIri | isBlank | isLiteral
  deriving Repr, DecidableEq, Inhabited

inductive CmpOp | gt | le | ge
  deriving Repr, DecidableEq, Inhabited

inductive AOp | add | sub | mul
  deriving Repr, DecidableEq, Inhabited

/-- the modelled core of `spargebra::algebra::Expression` (EXISTS: see `GP.filterExists`) -/
inductive Expr where
  | const (t : Term)              -- NamedNode / Literal
  | var (x : Str)
  | or (a b : Expr)
  | and (a b : Expr)
  | eq (a b : Expr)
  | sameTerm (a b : Expr)
  | lt (a b : Expr)
  | not (a : Expr)
  | bound (x : Str)
  | call (f : Func) (a : Expr)
  | cmp (op : CmpOp) (a b : Expr)         -- Greater / LessOrEqual / GreaterOrEqual
  | arith (op : AOp) (a b : Expr)         -- Add / Subtract / Multiply (Divide yields decimals: not modelled)
  | neg (a : Expr)                        -- UnaryMinus
  | pos (a : Expr)                        -- UnaryPlus
  | ite (c t e : Expr)                    -- IF
  /-- `In(a, e :: es)`, the list spelled as a chain: `rest` is the `inl` for `es`, or `const false`
  for the empty list -/
  | inl (a e rest : Expr)
  /-- `Coalesce(a :: es)` as a chain ending in `err` -/
  | coalesce (a rest : Expr)
  /-- no counterpart in spargebra: the expression that always raises an error (`Coalesce([])`) -/
  | err
  deriving Repr, DecidableEq, Inhabited

/-- `NamedNodePattern` of a GRAPH clause -/
inductive GName | iri (s : Str) | var (x : Str)
  deriving Repr, DecidableEq, Inhabited

/-- every variant of `spargebra::algebra::GraphPattern` (no `sep-0006`) -/
inductive GP where
  | bgp (ps : List TP)
  | path
  | join (l r : GP)
  | leftJoin (l r : GP)
  | filter (e : Expr) (inner : GP)
  /-- `Filter { expr: Exists(pat), inner }` (`neg = false`) or `Filter { expr: Not(Exists(pat)), inner }`
  (`neg = true`): FILTER [NOT] EXISTS; other uses of `Expression::Exists` are outside the model -/
  | filterExists (neg : Bool) (pat : GP) (inner : GP)
  | union (l r : GP)
  | graph (name : GName) (inner : GP)
  | extend (inner : GP) (x : Str) (e : Expr)
  | minus (l r : GP)
  | values
  | orderBy (inner : GP)
  | project (inner : GP) (xs : List Str)
  | distinct (inner : GP)
  | reduced (inner : GP)
  | slice (inner : GP) (start : Nat) (len : Option Nat)
  | group (inner : GP)
  | service (inner : GP)
  deriving Repr, DecidableEq, Inhabited

/-- `spargebra::algebra::QueryDataset` -/
structure QDataset where
  default : List Str
  named : Option (List Str)
  deriving Repr, DecidableEq, Inhabited

/-- `spargebra::Query` -/
inductive Query where
  | select (ds : Option QDataset) (p : GP)
  | construct
  | describe
  | ask (ds : Option QDataset) (p : GP)
  deriving Repr, DecidableEq, Inhabited

/-- constructor tags, the index set of the generated dispatch table -/
inductive GPTag
  | bgp | path | join | leftJoin | filter | union | graph | extend | minus | values | orderBy
  | project | distinct | reduced | slice | group | service
  deriving Repr, DecidableEq, Inhabited

def GP.tag : GP → GPTag
  | .bgp _ => .bgp | .path => .path | .join _ _ => .join | .leftJoin _ _ => .leftJoin
  | .filter _ _ => .filter | .filterExists _ _ _ => .filter | .union _ _ => .union | .graph _ _ => .graph
  | .extend _ _ _ => .extend | .minus _ _ => .minus | .values => .values
  | .orderBy _ => .orderBy | .project _ _ => .project | .distinct _ => .distinct
  | .reduced _ => .reduced | .slice _ _ _ => .slice | .group _ => .group | .service _ => .service

def GPTag.all : List GPTag :=
  [.bgp, .path, .join, .leftJoin, .filter, .union, .graph, .extend, .minus, .values, .orderBy,
   .project, .distinct, .reduced, .slice, .group, .service]

inductive QTag | select | construct | describe | ask
  deriving Repr, DecidableEq, Inhabited

def Query.tag : Query → QTag
  | .select _ _ => .select | .construct => .construct | .describe => .describe | .ask _ _ => .ask

/-! ## Graphs and datasets -/

abbrev Triple := Term × Term × Term
abbrev Graph := List Triple

def tripleEq (a b : Triple) : Bool := termEq a.1 b.1 && termEq a.2.1 b.2.1 && termEq a.2.2 b.2.2

/-- the triples of the quads whose graph name satisfies `sel` -/
def graphOf (D : List Quad) (sel : Option Term → Bool) : Graph :=
  (D.filter (fun q => sel q.g)).map (fun q => (q.s, q.p, q.o))

def defaultGraph (D : List Quad) : Graph := graphOf D (fun g => g.isNone)

def isName (n : Term) : Option Term → Bool
  | some g => termEq n g
  | none => false

def namedGraph (D : List Quad) (n : Term) : Graph := graphOf D (isName n)

/-- keep the first element of every `eqv`-class -/
def dedupBy {α : Type} (eqv : α → α → Bool) : List α → List α
  | [] => []
  | a :: l => a :: (dedupBy eqv l).filter (fun b => !eqv a b)

/-- the names of the named graphs of the dataset (a graph exists in a quad store iff it has a quad) -/
def graphNames (D : List Quad) : List Term := dedupBy termEq (D.filterMap (·.g))

/-! ## Solution mappings -/

inductive Key | var (x : Str) | bn (l : Str)
  deriving Repr, DecidableEq, Inhabited

abbrev Mu := List (Key × Term)

def Mu.get (μ : Mu) (k : Key) : Option Term := List.lookup k μ

/-- §18.3 two mappings are compatible when they agree (as RDF terms) on the shared variables -/
def compatible (μ₁ μ₂ : Mu) : Bool :=
  μ₁.all (fun kt => match μ₁.get kt.1, μ₂.get kt.1 with
    | some t₁, some t₂ => termEq t₁ t₂
    | _, _ => true)

def merge (μ₁ μ₂ : Mu) : Mu := μ₁ ++ μ₂.filter (fun kt => (μ₁.get kt.1).isNone)

/-- §18.5 `Join(Ω₁, Ω₂)` with multiplicities -/
def join (Ω₁ Ω₂ : List Mu) : List Mu :=
  Ω₁.flatMap (fun μ₁ => Ω₂.filterMap (fun μ₂ => if compatible μ₁ μ₂ then some (merge μ₁ μ₂) else none))

/-- the equations `key ↦ term` under which the pattern term `pat` instantiates to the ground
term `t` (pattern instantiation run backwards); `none`: no instance of `pat` is `t` -/
def constraints : Term → Term → Option (List (Key × Term))
  | .var x, t => some [(.var x, t)]
  | .bnode l, t => some [(.bn l, t)]
  | .triple ps pp po, .triple s p o =>
    match constraints ps s, constraints pp p, constraints po o with
    | some a, some b, some c => some (a ++ b ++ c)
    | _, _, _ => none
  | .triple _ _ _, _ => none
  | c, t => if termEq c t then some [] else none

def constraintsTP (tp : TP) (t : Triple) : Option (List (Key × Term)) :=
  match constraints tp.s t.1, constraints tp.p t.2.1, constraints tp.o t.2.2 with
  | some a, some b, some c => some (a ++ b ++ c)
  | _, _, _ => none

/-- impose one equation on a partial mapping -/
def addC (μ : Mu) (c : Key × Term) : Option Mu :=
  match μ.get c.1 with
  | some t => if termEq t c.2 then some μ else none
  | none => some (c :: μ)

/-- the least mapping extending `μ₀` that satisfies all the equations -/
def solve (μ₀ : Mu) (cs : List (Key × Term)) : Option Mu := cs.foldlM addC μ₀

/-- the equations of a whole BGP mapped onto a list of triples, pattern by pattern -/
def allConstraints : List TP → List Triple → Option (List (Key × Term))
  | [], [] => some []
  | tp :: ps, t :: ts =>
    match constraintsTP tp t, allConstraints ps ts with
    | some a, some b => some (a ++ b)
    | _, _ => none
  | _, _ => none

/-- all ways of choosing one triple of `G` per triple pattern -/
def choices (G : Graph) : Nat → List (List Triple)
  | 0 => [[]]
  | n + 1 => G.flatMap (fun t => (choices G n).map (t :: ·))

/-- the pattern instance mappings P = μ∘σ (variables *and* placeholders) with P(BGP) ⊆ G that
extend `μ₀`: one per way of mapping the BGP into `G` -/
def instancesFrom (μ₀ : Mu) (G : Graph) (ps : List TP) : List Mu :=
  (choices G ps.length).filterMap (fun ts => (allConstraints ps ts).bind (solve μ₀))

def isVarKey : Key × Term → Bool
  | (.var _, _) => true
  | (.bn _, _) => false

/-- forget the placeholder bindings -/
def dropBn (μ : Mu) : Mu := μ.filter isVarKey

/-- §18.3.1 `[[BGP]]_G`: the restriction to the variables of every instance mapping, i.e. μ with
multiplicity = the number of σ such that μ(σ(BGP)) ⊆ G -/
def specBgp (G : Graph) (ps : List TP) : List Mu := (instancesFrom [] G ps).map dropBn

/-! ## Expressions (§17), concrete core -/

def xsd (s : String) : Str := ("http://www.w3.org/2001/XMLSchema#" ++ s).toList
def xsdString := xsd "string"
def xsdInteger := xsd "integer"
def xsdBoolean := xsd "boolean"

def isDigit (c : Char) : Bool := '0' ≤ c && c ≤ '9'

def digitsVal (ds : List Char) : Nat := ds.foldl (fun n c => 10 * n + (c.toNat - 48)) 0

/-- lexical-to-value mapping of xsd:integer: `[+-]?[0-9]+` -/
def parseInteger (lex : Str) : Option Int :=
  let body (ds : List Char) (neg : Bool) : Option Int :=
    if ds ≠ [] && ds.all isDigit then some (if neg then -(digitsVal ds : Int) else (digitsVal ds : Int)) else none
  match lex with
  | '-' :: ds => body ds true
  | '+' :: ds => body ds false
  | ds => body ds false

/-- lexical-to-value mapping of xsd:boolean: `true | false | 1 | 0` -/
def parseBoolean (lex : Str) : Option Bool :=
  if lex = "true".toList || lex = "1".toList then some true
  else if lex = "false".toList || lex = "0".toList then some false
  else none

def boolTerm (b : Bool) : Term := .lit (if b then "true".toList else "false".toList) xsdBoolean

/-- §17.2.2 effective boolean value -/
def ebv : Term → Option Bool
  | .lit lex dt =>
    if dt = xsdBoolean then some ((parseBoolean lex).getD false)       -- invalid lexical form: false
    else if dt = xsdString then some (lex ≠ [])
    else if dt = xsdInteger then some (match parseInteger lex with | some i => i ≠ 0 | none => false)
    else none
  | .lang lex _ => some (lex ≠ [])                                      -- plain literal with a tag
  | _ => none

/-- value classes of the operator table §17.3 restricted to the modelled datatypes -/
inductive Val | int (i : Int) | str (s : Str) | bool (b : Bool) | lstr (s : Str) (tag : Str)

def valOf : Term → Option Val
  | .lit lex dt =>
    if dt = xsdInteger then (parseInteger lex).map .int
    else if dt = xsdString then some (.str lex)
    else if dt = xsdBoolean then (parseBoolean lex).map .bool
    else none
  | .lang lex tag => some (.lstr lex tag)
  | _ => none

def isLiteral : Term → Bool
  | .lit _ _ => true | .lang _ _ => true | _ => false

/-- `A = B` (§17.3 operator table, then RDFterm-equal §17.4.1.7): numeric / string / boolean
equality on values; otherwise same term ⇒ true, two different literals ⇒ type error, else false.
Language-tagged strings are compared as (lexical form, lower-cased tag) pairs. -/
def opEq (a b : Term) : Option Bool :=
  match valOf a, valOf b with
  | some (.int x), some (.int y) => some (x == y)
  | some (.str x), some (.str y) => some (x == y)
  | some (.bool x), some (.bool y) => some (x == y)
  | some (.lstr x t), some (.lstr y u) => some (x == y && tagEq t u)
  | _, _ =>
    if termEq a b then some true
    else if isLiteral a && isLiteral b then none
    else some false

/-- `A < B` (§17.3): numeric, xsd:string, xsd:boolean; anything else is a type error.
§17.3.1 allows an implementation to replace such a type error by a result; the engine does so in
two places and the oracle adopts both so that they are not reported: two language-tagged strings
are ordered by (tag, lexical form), and a literal without a recognised value is "not less than"
itself. -/
def opLt (a b : Term) : Option Bool :=
  match valOf a, valOf b with
  | some (.int x), some (.int y) => some (decide (x < y))
  | some (.str x), some (.str y) => some (strCmp x y == .lt)
  | some (.bool x), some (.bool y) => some (!x && y)
  | some (.lstr x t), some (.lstr y u) => some ((tagCmp t u).then (strCmp x y) == .lt)
  | none, _ | _, none => if isLiteral a && isLiteral b && termEq a b then some false else none
  | _, _ => none

/-- `A > B`, `A <= B`, `A >= B` (§17.3), same operand types and the same two adopted extensions as `<` -/
def opOrd (a b : Term) : Option Ordering :=
  match valOf a, valOf b with
  | some (.int x), some (.int y) => some (compare x y)
  | some (.str x), some (.str y) => some (strCmp x y)
  | some (.bool x), some (.bool y) => some (compare x.toNat y.toNat)
  | some (.lstr x t), some (.lstr y u) => some ((tagCmp t u).then (strCmp x y))
  | none, _ | _, none => if isLiteral a && isLiteral b && termEq a b then some .eq else none
  | _, _ => none

def CmpOp.test : CmpOp → Ordering → Bool
  | .gt, o => o == .gt
  | .le, o => o != .gt
  | .ge, o => o != .lt

def intTerm (i : Int) : Term := .lit (toString i).toList xsdInteger

/-- op:numeric-add / -subtract / -multiply on xsd:integer (§17.3); other operands: type error -/
def opArith (op : AOp) (a b : Term) : Option Term :=
  match valOf a, valOf b with
  | some (.int x), some (.int y) => some (intTerm (match op with | .add => x + y | .sub => x - y | .mul => x * y))
  | _, _ => none

def opNeg (a : Term) : Option Term :=
  match valOf a with
  | some (.int x) => some (intTerm (-x))
  | _ => none

def opPos (a : Term) : Option Term :=
  match valOf a with
  | some (.int x) => some (intTerm x)
  | _ => none

/-- §17.4 functional forms / functions of the core, on terms -/
def callFunc : Func → Term → Option Term
  | .str, .iri s => some (.lit s xsdString)
  | .str, .lit lex _ => some (.lit lex xsdString)
  | .str, .lang lex _ => some (.lit lex xsdString)
  | .str, _ => none
  | .lang, .lit _ _ => some (.lit [] xsdString)
  | .lang, .lang _ tag => some (.lit tag xsdString)
  | .lang, _ => none
  | .datatype, .lit _ dt => some (.iri dt)
  | .datatype, .lang _ _ => some (.iri rdfLangString)
  | .datatype, _ => none
  | .isIri, t => some (boolTerm (match t with | .iri _ => true | _ => false))
  | .isBlank, t => some (boolTerm (match t with | .bnode _ => true | _ => false))
  | .isLiteral, t => some (boolTerm (isLiteral t))

/-- §17.2 / §17.4.1.5-6 logical-or / logical-and over EBVs with errors -/
def or3 : Option Bool → Option Bool → Option Bool
  | some true, _ => some true
  | _, some true => some true
  | some false, some false => some false
  | _, _ => none

def and3 : Option Bool → Option Bool → Option Bool
  | some false, _ => some false
  | _, some false => some false
  | some true, some true => some true
  | _, _ => none

def evalExpr (μ : Mu) : Expr → Option Term
  | .const t => some t
  | .var x => μ.get (.var x)
  | .or a b => (or3 ((evalExpr μ a).bind ebv) ((evalExpr μ b).bind ebv)).map boolTerm
  | .and a b => (and3 ((evalExpr μ a).bind ebv) ((evalExpr μ b).bind ebv)).map boolTerm
  | .eq a b => do let x ← evalExpr μ a; let y ← evalExpr μ b; (opEq x y).map boolTerm
  | .sameTerm a b => do let x ← evalExpr μ a; let y ← evalExpr μ b; pure (boolTerm (termEq x y))
  | .lt a b => do let x ← evalExpr μ a; let y ← evalExpr μ b; (opLt x y).map boolTerm
  | .not a => do let x ← evalExpr μ a; let v ← ebv x; pure (boolTerm (!v))
  | .bound x => some (boolTerm (μ.get (.var x)).isSome)
  | .call f a => do let x ← evalExpr μ a; callFunc f x
  | .cmp op a b => do let x ← evalExpr μ a; let y ← evalExpr μ b; (opOrd x y).map (fun o => boolTerm (op.test o))
  | .arith op a b => do let x ← evalExpr μ a; let y ← evalExpr μ b; opArith op x y
  | .neg a => do let x ← evalExpr μ a; opNeg x
  | .pos a => do let x ← evalExpr μ a; opPos x
  -- §17.4.1.2 IF: an error in the condition *or in its effective boolean value* is an error of the IF
  | .ite c t e => do
    let x ← evalExpr μ c
    let v ← ebv x
    if v then evalExpr μ t else evalExpr μ e
  -- §17.4.1.9 IN: `(a = e₁) || (a = e₂) || …` with the error semantics of `||`
  | .inl a e rest =>
    (or3 (do let x ← evalExpr μ a; let y ← evalExpr μ e; opEq x y) ((evalExpr μ rest).bind ebv)).map boolTerm
  -- §17.4.1.3 COALESCE: the first argument that evaluates without error
  | .coalesce a rest => (evalExpr μ a).or (evalExpr μ rest)
  | .err => none

/-- the FILTER condition: EBV is true (an error removes the solution) -/
def holds (e : Expr) (μ : Mu) : Bool := ((evalExpr μ e).bind ebv) == some true

/-! ## Pattern evaluation (§18.6) -/

inductive Err
  | unsupported            -- outside the fragment of the property: the engine must refuse
  | rebind (x : Str)       -- Extend on a variable already in scope (§18.2.1)
  deriving Repr, DecidableEq, Inhabited

def termVars : Term → List Str
  | .var x => [x]
  | .triple s p o => termVars s ++ termVars p ++ termVars o
  | _ => []

def TP.vars (tp : TP) : List Str := termVars tp.s ++ termVars tp.p ++ termVars tp.o

/-- §18.2.1 in-scope variables -/
def inScope : GP → List Str
  | .bgp ps => ps.flatMap TP.vars
  | .filter _ p => inScope p
  | .filterExists _ _ p => inScope p
  | .union l r => inScope l ++ inScope r
  | .graph (.var x) p => x :: inScope p
  | .graph (.iri _) p => inScope p
  | .extend p x _ => x :: inScope p
  | .orderBy p => inScope p
  | .project _ xs => xs
  | .distinct p => inScope p
  | .slice p _ _ => inScope p
  | _ => []

/-- two solutions are the same solution: same domain, same RDF terms -/
def muLe (μ₁ μ₂ : Mu) : Bool :=
  μ₁.all (fun kt => match μ₁.get kt.1, μ₂.get kt.1 with
    | some t₁, some t₂ => termEq t₁ t₂
    | _, _ => false)
def muEq (μ₁ μ₂ : Mu) : Bool := muLe μ₁ μ₂ && muLe μ₂ μ₁

def projectMu (xs : List Str) (μ : Mu) : Mu :=
  xs.filterMap (fun x => (μ.get (.var x)).map (fun t => (Key.var x, t)))

def sliceList {α : Type} (l : List α) (start : Nat) (len : Option Nat) : List α :=
  match len with
  | some n => (l.drop start).take n
  | none => l.drop start

/-- `eval(D(G), substitute(P, μ₀))` extended by μ₀, for the group patterns that may stand inside
EXISTS here (BGP, UNION, FILTER, GRAPH, nested FILTER [NOT] EXISTS): substituting the variables of
μ₀ and then matching gives, up to μ₀ itself, the solutions that *extend* μ₀ (§18.6 `exists`). -/
def evalUnder (D : List Quad) : GP → Graph → Mu → Except Err (List Mu)
  | .bgp ps, G, μ₀ => .ok ((instancesFrom μ₀ G ps).map dropBn)
  | .union l r, G, μ₀ => do
    let a ← evalUnder D l G μ₀
    let b ← evalUnder D r G μ₀
    pure (a ++ b)
  | .filter e p, G, μ₀ => do
    let Ω ← evalUnder D p G μ₀
    pure (Ω.filter (holds e))
  | .filterExists neg pat p, G, μ₀ => do
    let Ω ← evalUnder D p G μ₀
    let keep ← Ω.mapM (fun μ => (evalUnder D pat G μ).map (fun r => (!r.isEmpty) != neg))
    pure ((Ω.zip keep).filterMap (fun x => if x.2 then some x.1 else none))
  | .graph (.iri n) p, _, μ₀ => evalUnder D p (namedGraph D (.iri n)) μ₀
  | .graph (.var x) p, _, μ₀ =>
    match μ₀.get (.var x) with
    | some n => evalUnder D p (namedGraph D n) μ₀
    | none =>
      (graphNames D).foldr (fun n acc => do
        let Ω ← evalUnder D p (namedGraph D n) μ₀
        let rest ← acc
        pure (join [[(Key.var x, n)]] Ω ++ rest)) (.ok [])
  | _, _, _ => .error .unsupported

/-- `eval(D(G), P)`; `G` is the active graph -/
def eval (D : List Quad) : GP → Graph → Except Err (List Mu)
  | .bgp ps, G => .ok (specBgp G ps)
  | .union l r, G => do
    let a ← eval D l G
    let b ← eval D r G
    pure (a ++ b)
  | .filter e p, G => do
    let Ω ← eval D p G
    pure (Ω.filter (holds e))
  -- §17.4.1.4 / §18.6: keep μ iff eval(D(G), substitute(pat, μ)) has a solution (or has none, NOT EXISTS)
  | .filterExists neg pat p, G => do
    let Ω ← eval D p G
    let keep ← Ω.mapM (fun μ => (evalUnder D pat G μ).map (fun r => (!r.isEmpty) != neg))
    pure ((Ω.zip keep).filterMap (fun x => if x.2 then some x.1 else none))
  | .graph (.iri n) p, _ => eval D p (namedGraph D (.iri n))
  | .graph (.var x) p, _ =>
    (graphNames D).foldr (fun n acc => do
      let Ω ← eval D p (namedGraph D n)
      let rest ← acc
      pure (join [[(Key.var x, n)]] Ω ++ rest)) (.ok [])
  | .extend p x e, G => do
    let Ω ← eval D p G
    if (inScope p).contains x then throw (.rebind x)
    pure (Ω.map (fun μ => match evalExpr μ e with
      | some t => (Key.var x, t) :: μ
      | none => μ))
  | .orderBy p, G => eval D p G          -- as a multiset; the order is property C14
  | .project p xs, G => do
    let Ω ← eval D p G
    pure (Ω.map (projectMu xs))
  | .distinct p, G => do
    let Ω ← eval D p G
    pure (dedupBy muEq Ω)
  | .slice p start len, G => do
    let Ω ← eval D p G
    pure (sliceList Ω start len)
  | _, _ => .error .unsupported

/-- what may stand inside EXISTS for the oracle: the substitution semantics is only written down
(`evalUnder`) for these -/
def existsFragment : GP → Bool
  | .bgp _ => true
  | .filter _ p => existsFragment p
  | .filterExists _ pat p => existsFragment pat && existsFragment p
  | .union l r => existsFragment l && existsFragment r
  | .graph _ p => existsFragment p
  | _ => false

/-- the fragment of the property: everything else must be refused -/
def inFragment : GP → Bool
  | .bgp _ => true
  | .filter _ p => inFragment p
  | .filterExists _ pat p => existsFragment pat && inFragment p
  | .union l r => inFragment l && inFragment r
  | .graph _ p => inFragment p
  | .extend p _ _ => inFragment p
  | .orderBy p => inFragment p
  | .project p _ => inFragment p
  | .distinct p => inFragment p
  | .slice p _ _ => inFragment p
  | _ => false

inductive Answer
  | rows (xs : List Str) (Ω : List Mu)
  | bool (b : Bool)
  | err (e : Err)
  deriving Inhabited

/-- §13.2: the RDF dataset of a query with `FROM g₁ … FROM gₙ` and no `FROM NAMED`: the default graph
is the RDF merge of the graphs gᵢ (a set: a triple present in several of them occurs once), and
there is no named graph -/
def fromDataset (D : List Quad) (froms : List Str) : List Quad :=
  (dedupBy tripleEq (graphOf D (fun g => froms.any (fun n => isName (.iri n) g)))).map
    (fun t => ⟨t.1, t.2.1, t.2.2, none⟩)

/-- a query over the dataset `D`.  Without a dataset clause the default graph is the active graph.
A pattern outside the fragment, and `FROM NAMED` (a dataset clause with a `named` list, which is what
the SPARQL parser produces for *any* dataset clause) are to be refused; a `QueryDataset` with
`named: None` (only constructible programmatically) may be refused or answered — if answered, then
over the dataset of §13.2. -/
def evalQuery (D : List Quad) : Query → Answer
  | .select none p =>
    if inFragment p then
      match eval D p (defaultGraph D) with
      | .ok Ω => .rows (inScope p) Ω
      | .error e => .err e
    else .err .unsupported
  | .ask none p =>
    if inFragment p then
      match eval D p (defaultGraph D) with
      | .ok Ω => .bool (!Ω.isEmpty)
      | .error e => .err e
    else .err .unsupported
  | .select (some ⟨froms, none⟩) p =>
    if inFragment p then
      match eval (fromDataset D froms) p (defaultGraph (fromDataset D froms)) with
      | .ok Ω => .rows (inScope p) Ω
      | .error e => .err e
    else .err .unsupported
  | .ask (some ⟨froms, none⟩) p =>
    if inFragment p then
      match eval (fromDataset D froms) p (defaultGraph (fromDataset D froms)) with
      | .ok Ω => .bool (!Ω.isEmpty)
      | .error e => .err e
    else .err .unsupported
  | _ => .err .unsupported

end SophiaModel.SparqlSpec
