/-
C08 — the token-language contract per (syntax, token kind), as the driver executes it: which tokens
the back-end accepts, what it hands over to sophia for them, and which validator of the toolkit the
property demands of that string.  The recognisers are the hand models of `Model/Backend.lean`; the
validators are the regexes regenerated from /repo (`Gen/Regexes.lean`).

`SophiaProofs.C08.spec_contract` proves, for every (syntax, kind) of the `safe` list, that whatever is
accepted is handed over valid; the kinds outside the list are the refuted inclusions (findings).
-/
import SophiaModel.Model.Backend
import SophiaModel.Gen.Regexes
import SophiaModel.Gen.ParserWiring

namespace SophiaModel.ParserContract
open SophiaModel Re Backend

/-- model of one (syntax, token kind): which tokens the back-end accepts, what it hands over,
which validator the sophia accessor applies to that -/
structure Spec where
  accept : List Nat → Bool
  out : List Nat → List Nat
  validator : Re

def strict (syn : String) : Bool := !(syn == "gnq" || syn == "gtrig")
def rioFamily (syn : String) : Bool := ["nt", "nq", "ttl", "trig", "gnq", "gtrig"].contains syn
def turtleLike (syn : String) : Bool := ["ttl", "trig", "gtrig"].contains syn

/-- token kinds that reach the same recogniser from another position of the statement (predicate,
object, graph name, constituent of a quoted triple), another RDF/XML attribute or another literal -/
def baseKind (kind : String) : String :=
  if ["iri_p", "iri_o", "iri_g", "iri_q", "iri_qo", "resource"].contains kind then "iri"
  else if ["bnode_g", "bnode_q", "bnode_qo"].contains kind then "bnode"
  else if ["lang_q", "lang_p"].contains kind then "lang"
  else if ["dt_q", "datatype"].contains kind then "dt"
  else if ["var_p", "var_o", "var_g", "var_q"].contains kind then "var"
  else if ["pname_p", "pname_o", "pname_g", "pname_q"].contains kind then "pname"
  else if kind == "nodeid_o" then "nodeid"
  else kind

/-- the recogniser classes: which back-end routine reads the token -/
inductive Cls where
  /-- `parse_blank_node_label` (Rio family, any position) -/
  | bnode
  /-- RDF/XML `rdf:nodeID` (any NCName) -/
  | nodeid
  /-- oxilangtag behind rio_turtle / rio_xml -/
  | lang
  /-- `parse_variable` (generalized syntaxes) -/
  | var
  /-- generalized TriG `<…>`: no IRI parser consulted -/
  | iriGtrig
  /-- generalized N-Quads `<…>`: `oxiri::IriRef::parse` -/
  | iriRef
  /-- strict syntaxes `<…>`, RDF/XML IRI attributes: `oxiri::Iri::parse` -/
  | iriAbs
  /-- datatype IRIs `^^<…>` / `rdf:datatype` -/
  | dt
  /-- prefixed name as a term -/
  | pname
  /-- prefixed name as a datatype -/
  | pnameD
  /-- generalized TriG: unvalidated prefix namespace ++ `d` as a datatype -/
  | pnameDt
  /-- RDF/XML namespace name ++ local name `p` -/
  | xmlns
  /-- JSON-LD with `produce_generalized_rdf`: a blank node identifier used as property (not relabelled) -/
  | jsonldPred
  deriving Repr, DecidableEq

def classify (syn kind0 : String) : Option Cls :=
  let kind := baseKind kind0
  if (kind == "bnode" || kind == "bnode_o") && rioFamily syn then some .bnode
  else if kind == "nodeid" && syn == "xml" then some .nodeid
  else if kind == "lang" && (rioFamily syn || syn == "xml") then some .lang
  else if kind == "var" && (syn == "gnq" || syn == "gtrig") then some .var
  else if kind == "iri" && syn == "gtrig" then some .iriGtrig
  else if kind == "iri" && syn == "gnq" then some .iriRef
  else if kind == "iri" && (rioFamily syn || syn == "xml") then some .iriAbs
  else if kind == "dt" && (rioFamily syn || syn == "xml") then some .dt
  else if kind == "pname" && turtleLike syn then some .pname
  else if kind == "pname_d" && turtleLike syn then some .pnameD
  else if kind == "pname_dt" && syn == "gtrig" then some .pnameDt
  else if kind == "xmlns" && syn == "xml" then some .xmlns
  else if kind == "bnode_p" && syn == "jsonld@gen" then some .jsonldPred
  else none

/-- accepted language, emitted string and demanded validator of a class.  `syn` matters only for the
Turtle-family relabelling of `riog…` labels and for "absolute in strict parsers". -/
def specOf (syn : String) : Cls → Spec
  | .bnode => ⟨matchB rioBnode, if turtleLike syn then disambiguate else id, Gen.BNODE_ID⟩
  | .nodeid => ⟨matchB xmlNodeId, id, Gen.BNODE_ID⟩
  | .lang => ⟨fun w => matchB rioLang (lowerAscii w), lowerAscii, Gen.LANG_TAG⟩
  | .var => ⟨matchB rioVar, id, Gen.VARNAME⟩
  | .iriGtrig => ⟨matchB gtrigIri, id, Gen.IRI_REF_REGEX⟩
  | .iriRef => ⟨matchB rioIriRef, id, Gen.IRI_REF_REGEX⟩
  | .iriAbs => ⟨matchB rioIriAbs, id, if strict syn then Gen.IRI_REGEX else Gen.IRI_REF_REGEX⟩
  | .dt => ⟨matchB rioIriAbs, id, Gen.IRI_REGEX⟩
  | .pname => ⟨matchB pnLocalOut, fun w => ofStr "x:" ++ w, if strict syn then Gen.IRI_REGEX else Gen.IRI_REF_REGEX⟩
  -- a prefixed name as datatype: the accessor demands an absolute IRI, in generalized TriG too
  | .pnameD => ⟨matchB pnLocalOut, fun w => ofStr "x:" ++ w, Gen.IRI_REGEX⟩
  -- `@prefix p: <w>` is not validated either; the datatype `w ++ "d"` must be absolute for the accessor
  | .pnameDt => ⟨matchB gtrigIri, fun w => w ++ ofStr "d", Gen.IRI_REGEX⟩
  | .xmlns => ⟨fun w => matchB xmlQNameOut (w ++ ofStr "p"), fun w => w ++ ofStr "p", Gen.IRI_REGEX⟩
  -- jsonld/src/parser.rs as shipped hands the label over; with the fix it answers with an error when `BnodeId::new` fails
  | .jsonldPred =>
    ⟨fun w => matchB jsonldBnodePred w && (!Gen.ParserWiring.jsonldRejectsInvalidBnodeLabels || matchB Gen.BNODE_ID w),
     id, Gen.BNODE_ID⟩

def spec (syn kind : String) : Option Spec := (classify syn kind).map (specOf syn)

/-- the classes for which the contract is a theorem.  Outside: generalized TriG `<…>` (no IRI parser consulted),
prefixed names in every position (namespace ++ local part never validated), RDF/XML qualified names and
`rdf:nodeID` — each refuted by a kernel-checked witness in Props/C08.lean.  JSON-LD blank node properties under
`produce_generalized_rdf` are inside since /repo ea054b4 (the parser checks the label itself; pinned by
`jsonld_rejects_invalid_bnode_labels`). -/
def Cls.safe : Cls → Bool
  | .bnode | .lang | .var | .iriRef | .iriAbs | .dt | .jsonldPred => true
  | .nodeid | .iriGtrig | .pname | .pnameD | .pnameDt | .xmlns => false

def safe (syn kind : String) : Bool :=
  match classify syn kind with
  | some c => c.safe
  | none => false

/-! ## the `Trusted<…>` accessor layer (rio/src/model.rs, iri/src/_wrap_macro.rs, api/src/term/language_tag.rs)

What a caller gets when it reads a yielded term.  The accessor first `debug_assert!`s a validator — WHICH one is
read from /repo (`Gen.ParserWiring.accessorValidators`, regenerated on every run), not assumed — then wraps the
back-end string with `new_unchecked`, which validates in debug builds only; `LanguageTag::new_unchecked` is the
exception: it `assert!`s in every build (`Gen.ParserWiring.langUnchecked`). -/

/-- outcome of reading a term: a value the property's validator accepts, a value it rejects (handed out
silently), or a panic -/
inductive Access where
  | ok | invalid | panic
  deriving Repr, DecidableEq

def Access.name : Access → String
  | .ok => "ok" | .invalid => "invalid" | .panic => "panic"

/-- the regex behind a validator name found in an accessor's assertion; an unknown name fails closed -/
def validatorByName (n : String) : Option Re :=
  if n == "IriRef" then some Gen.IRI_REF_REGEX
  else if n == "Iri" then some Gen.IRI_REGEX
  else if n == "BnodeId" then some Gen.BNODE_ID
  else if n == "VarName" then some Gen.VARNAME
  else if n == "LanguageTag" then some Gen.LANG_TAG
  else none

/-- which accessor reads a token of the class -/
def Cls.accessor : Cls → String
  | .bnode | .nodeid | .jsonldPred => "bnode_id"
  | .lang => "language_tag"
  | .var => "variable"
  | .iriGtrig | .iriRef | .iriAbs | .pname | .xmlns => "iri"
  | .dt | .pnameD | .pnameDt => "datatype"

/-- reading the string `out` handed over for class `c`, in a debug (`debug = true`) or release build -/
def access (debug : Bool) (syn : String) (c : Cls) (out : List Nat) : Access :=
  match (Gen.ParserWiring.accessorValidators.lookup c.accessor).bind validatorByName with
  | none => .panic
  | some v =>
    let assertsAlways := c.accessor == "language_tag" && Gen.ParserWiring.langUnchecked == "assert"
    if (debug || assertsAlways) && !matchB v out then .panic
    else if matchB (specOf syn c).validator out then .ok
    else .invalid

end SophiaModel.ParserContract
