/-
Model of `turtle/src/serializer/_pretty.rs` (the pretty Turtle / TriG writer), function by
function, over the GSPO-sorted quad list that `PrettifiableDataset = BTreeSet<Gspo<SimpleTerm>>`
iterates.  Includes the code's defects (see findings/C04.json); the three places where a
proposed fix changes a branch are switched by `SophiaModel.Gen.PrettyFlags`, regenerated from
the source text by tools/extractors/c04.py on every run.

Simplifications (each observable through the byte-exact differential):
* `BTreeMap`/`BTreeSet` keyed by `&SimpleTerm` are association lists looked up with `Term::eq`
  / `Term::cmp = Equal`; iteration order is reproduced where the code depends on it
  (`profiles.keys()`, `subject_types`).
* `find_subject` (binary search on the current graph's slice of `subject_types`) is a linear
  search for the first entry comparing `Equal` — the same on a strictly sorted slice.
* byte lengths of namespaces (`n_str.len() > matched`) are code point counts: all candidates
  are prefixes of the same IRI, so the two orders coincide.
* `BnodeProfile::out_degree` is never read and is omitted; so is the dead `atoms.next()` skip
  in `build_labelled` (the loop re-creates `t.atoms()`, the advanced iterator is dropped).
* recursion of the writer is bounded by `fuel` (depth); running out sets `fault`.
* `nt::quoted_string` is the model of C03 (`SophiaModel.NT.quotedString`, defined over the escape table
  regenerated from turtle/src/serializer/nt.rs), so a change of the table is followed here too.
* `TurtleConfig::with_indentation` (turtle.rs) is `indentAccepted`: the assertion that decides which
  indentation strings a configuration can carry (switched by `Gen.PrettyFlags.indentTurtleWs`).
-/
import SophiaModel.Basic.TermOrder
import SophiaModel.Regex.Comb
import SophiaModel.Gen.Regexes
import SophiaModel.Gen.PrettyFlags
import SophiaModel.Model.TurtleTokens
import SophiaModel.Model.NT

namespace SophiaModel.Pretty
open SophiaModel Term

/-! ### constants of `sophia_api::ns` -/

def rdfNs : Str := "http://www.w3.org/1999/02/22-rdf-syntax-ns#".toList
def xsdNs : Str := "http://www.w3.org/2001/XMLSchema#".toList
def rdfType : Str := rdfNs ++ "type".toList
def rdfFirst : Str := rdfNs ++ "first".toList
def rdfRest : Str := rdfNs ++ "rest".toList
def rdfNil : Str := rdfNs ++ "nil".toList
def xsdInteger : Str := xsdNs ++ "integer".toList
def xsdDecimal : Str := xsdNs ++ "decimal".toList
def xsdDouble : Str := xsdNs ++ "double".toList
def xsdBoolean : Str := xsdNs ++ "boolean".toList
def xsdString : Str := xsdNs ++ "string".toList

/-- `rdf::xxx == term` (`NsTerm::eq`): an IRI with exactly this text -/
def isIriOf (i : Str) (t : Term) : Bool :=
  match t with
  | .iri s => s == i
  | _ => false

abbrev GName := Option Term

def gEq : GName → GName → Bool
  | none, none => true
  | some a, some b => termEq a b
  | _, _ => false

def gCmp : GName → GName → Ordering
  | none, none => .eq
  | none, some _ => .lt
  | some _, none => .gt
  | some a, some b => termCmp a b

/-- `Ord` of `Gspo<SimpleTerm> = (Option<SimpleTerm>, [SimpleTerm; 3])` -/
def quadCmp (a b : Quad) : Ordering :=
  (gCmp a.g b.g).then ((termCmp a.s b.s).then ((termCmp a.p b.p).then (termCmp a.o b.o)))

/-- `BTreeSet::insert`: an element comparing `Equal` to a present one is dropped -/
def insertQuad (q : Quad) : List Quad → List Quad
  | [] => [q]
  | x :: xs =>
    match quadCmp q x with
    | .lt => q :: x :: xs
    | .eq => x :: xs
    | .gt => x :: insertQuad q xs

/-- the dataset collected by `serialize_triples` / `serialize_quads` (pretty mode) -/
def mkDataset (qs : List Quad) : List Quad := qs.foldl (fun d q => insertQuad q d) []

def isBnode : Term → Bool
  | .bnode _ => true
  | _ => false

/-- `Term::atoms` -/
def atoms : Term → List Term
  | .triple s p o => atoms s ++ atoms p ++ atoms o
  | t => [t]

/-- `Dataset::contains(d, s, p, o, g)` -/
def containsQ (d : List Quad) (s p o : Term) (g : GName) : Bool :=
  d.any (fun q => termEq q.s s && termEq q.p p && termEq q.o o && gEq q.g g)

/-! ### `build_labelled` -/

structure Profile where
  bad : Bool
  graphs : List GName
  pred : Option Term
  /-- `visited: bool`; with the fix C04-cycle-tail it is the number of the walk (0 = not visited) -/
  visited : Nat
  deriving Repr, Inhabited

/-- `BTreeMap<&SimpleTerm, BnodeProfile>` restricted to its actual keys (blank node labels),
kept sorted by `str::cmp` -/
abbrev Profiles := List (Str × Profile)

def pGet (ps : Profiles) (k : Str) : Option Profile :=
  match ps with
  | [] => none
  | (k', p) :: rest => if k' == k then some p else pGet rest k

def pModify (ps : Profiles) (k : Str) (f : Profile → Profile) : Profiles :=
  ps.map (fun e => if e.1 == k then (e.1, f e.2) else e)

def pInsert (ps : Profiles) (k : Str) (p : Profile) : Profiles :=
  match ps with
  | [] => [(k, p)]
  | (k', p') :: rest =>
    match strCmp k k' with
    | .lt => (k, p) :: (k', p') :: rest
    | .eq => (k', p) :: rest
    | .gt => (k', p') :: pInsert rest k p

/-- `add_named_graph` -/
def addNamedGraph (p : Profile) (g : GName) : Profile :=
  let gs := if p.graphs.any (gEq g) then p.graphs else p.graphs ++ [g]
  { p with graphs := gs, bad := p.bad || decide (gs.length > 1) }

/-- `update_positions` -/
def updatePositions (p : Profile) (pos : Nat) (q : Quad) : Profile :=
  if pos == 0 then p
  else if pos == 2 then
    (if p.pred.isNone then { p with pred := some q.s } else { p with bad := true })
  else { p with bad := true }

/-- a blank node met at position `i` of quad `q` (0 = s, 1 = p, 2 = o, 3 = g) -/
def seeBnode (ps : Profiles) (i : Nat) (q : Quad) (l : Str) : Profiles :=
  match pGet ps l with
  | some _ =>
    pModify ps l (fun p => if p.bad then p else updatePositions (addNamedGraph p q.g) i q)
  | none =>
    pInsert ps l { bad := i == 1 || i == 3, graphs := [q.g],
                   pred := if i == 2 then some q.s else none, visited := 0 }

/-- a blank node met inside a quoted triple -/
def seeQuotedBnode (ps : Profiles) (l : Str) : Profiles :=
  match pGet ps l with
  | some _ => pModify ps l (fun p => { p with bad := true })
  | none => pInsert ps l { bad := true, graphs := [], pred := none, visited := 0 }

def seeTerm (ps : Profiles) (i : Nat) (q : Quad) (t : Term) : Profiles :=
  match t with
  | .bnode l => seeBnode ps i q l
  | .triple _ _ _ =>
    (atoms t).foldl (fun ps a => match a with | .bnode l => seeQuotedBnode ps l | _ => ps) ps
  | _ => ps

/-- `iter_spog(q).enumerate()` -/
def spogEnum (q : Quad) : List (Nat × Term) :=
  [(0, q.s), (1, q.p), (2, q.o)] ++ (match q.g with | some g => [(3, g)] | none => [])

def buildProfiles (d : List Quad) : Profiles :=
  d.foldl (fun ps q => (spogEnum q).foldl (fun ps it => seeTerm ps it.1 q it.2) ps) []

/-- the `while let Some(t) = current` loop for one `key` (walk number `n ≥ 1`) -/
def cycleWalk (key : Str) (n : Nat) : Nat → Profiles → Option Term → Profiles
  | 0, ps, _ => ps
  | _, ps, none => ps
  | fuel + 1, ps, some t =>
    match t with
    | .bnode l =>
      match pGet ps l with
      | none => ps
      | some p =>
        if l == key then pModify ps l (fun p => { p with bad := true })
        else if p.bad then ps
        else if p.visited != 0 then
          -- shipped code: `visited` ⇒ stop.  Fixed code: a node visited *in this walk* closes a
          -- cycle that does not contain `key`; it is marked bad.
          (if Gen.PrettyFlags.walkStamp && p.visited == n then pModify ps l (fun p => { p with bad := true })
           else ps)
        else cycleWalk key n fuel (pModify ps l (fun p => { p with visited := n })) p.pred
    | _ => ps

/-- "detect blank node cycles": keys in `BTreeMap` order -/
def detectCycles (ps : Profiles) : Profiles :=
  ((ps.map (·.1)).foldl (fun (acc : Profiles × Nat) key =>
    let (ps, n) := acc
    match pGet ps key with
    | none => (ps, n + 1)
    | some p =>
      if p.bad || p.visited != 0 then (ps, n + 1)
      else (cycleWalk key n (ps.length + 1) (pModify ps key (fun p => { p with visited := n })) p.pred, n + 1))
    (ps, 1)).1

/-- `build_labelled`: the labels of the blank nodes that must be written `_:label` -/
def buildLabelled (d : List Quad) : List Str :=
  ((detectCycles (buildProfiles d)).filter (·.2.bad)).map (·.1)

def isLabelled (lab : List Str) (t : Term) : Bool :=
  match t with
  | .bnode l => lab.contains l
  | _ => false

/-! ### `build_subject_types` -/

inductive SubjectType | root | subTree | annotation | done
  deriving Repr, DecidableEq, Inhabited

structure STEntry where
  g : GName
  s : Term
  st : SubjectType
  deriving Repr, Inhabited

/-- `.dedup()` on consecutive `(g, s)` pairs -/
def dedupGS : List (GName × Term) → List (GName × Term)
  | [] => []
  | [x] => [x]
  | x :: y :: rest =>
    if gEq x.1 y.1 && termEq x.2 y.2 then dedupGS (y :: rest) else x :: dedupGS (y :: rest)

def inArcs (d : List Quad) (s : Term) (g : GName) : Nat :=
  (d.filter (fun q => termEq q.o s && gEq q.g g)).length

def classify (d : List Quad) (lab : List Str) (g : GName) (s : Term) : SubjectType :=
  match s with
  | .bnode _ => if !isLabelled lab s && inArcs d s g == 1 then .subTree else .root
  | .triple ts tp to =>
    if !isIriOf rdfFirst tp && !isIriOf rdfRest tp && containsQ d ts tp to g then .annotation else .root
  | _ => .root

def buildSubjectTypes (d : List Quad) (lab : List Str) : List STEntry :=
  (dedupGS (d.map (fun q => (q.g, q.s)))).map (fun gs => ⟨gs.1, gs.2, classify d lab gs.1 gs.2⟩)

def stGet (sts : List STEntry) (g : GName) (s : Term) : Option SubjectType :=
  (sts.find? (fun e => gCmp e.g g == .eq && termCmp e.s s == .eq)).map (·.st)

def stRemove (sts : List STEntry) (g : GName) (s : Term) : List STEntry :=
  sts.filter (fun e => !(gCmp e.g g == .eq && termCmp e.s s == .eq))

/-! ### `build_lists` / `list_item` -/

def listItemGo : List Quad → Option Term → Bool → Option Term
  | [], ret, _ => ret
  | q :: qs, ret, restSeen =>
    if isIriOf rdfRest q.p then
      -- shipped code: `continue` for every rdf:rest.  Fixed code: a second rdf:rest disqualifies.
      (if Gen.PrettyFlags.singleRest && restSeen then none else listItemGo qs ret true)
    else if isIriOf rdfFirst q.p && ret.isNone then listItemGo qs (some q.o) restSeen
    else none

/-- `list_item(s, d)`: the unique `rdf:first` value of `s` if `s` has no other property (in any graph) -/
def listItem (s : Term) (d : List Quad) : Option Term :=
  listItemGo (d.filter (fun q => termEq q.s s)) none false

abbrev Preds := List (Term × Term)

def predsGet (ps : Preds) (k : Term) : Option Term :=
  (ps.find? (fun e => termCmp e.1 k == .eq)).map (·.2)

/-- `preds.entry(o)`: Vacant ⇒ insert, Occupied ⇒ remove -/
def predsToggle (ps : Preds) (o s : Term) : Preds :=
  if (predsGet ps o).isSome then ps.filter (fun e => !(termCmp e.1 o == .eq)) else ps ++ [(o, s)]

structure Seed where
  g : GName
  s : Term
  items : List Term

structure ListsAcc where
  preds : Preds := []
  seeds : List Seed := []
  sts : List STEntry

/-- first loop of `build_lists` over `d.quads_matching(BlankNode, [rdf::rest], Any, Any)` -/
def listsPhase1 (d : List Quad) (sts : List STEntry) : ListsAcc :=
  (d.filter (fun q => isBnode q.s && isIriOf rdfRest q.p)).foldl (fun acc q =>
    if stGet acc.sts q.g q.s != some .subTree then acc
    else if isIriOf rdfNil q.o then
      (match listItem q.s d with
       | some val => { acc with seeds := acc.seeds ++ [⟨q.g, q.s, [val]⟩], sts := stRemove acc.sts q.g q.s }
       | none => acc)
    else if isBnode q.o then { acc with preds := predsToggle acc.preds q.o q.s }
    else acc) { sts := sts }

/-- the `loop` walking from a seed towards the head; `none` = the loop never terminates -/
def walkBack (d : List Quad) (preds : Preds) (g : GName) :
    Nat → Term → List Term → List STEntry → Option (Term × List Term × List STEntry)
  | 0, _, _, _ => none
  | fuel + 1, bn, items, sts =>
    match predsGet preds bn with
    | some pred =>
      (match listItem pred d with
       | some val => walkBack d preds g fuel pred (items ++ [val]) (stRemove sts g pred)
       | none => some (bn, items, sts))
    | none => some (bn, items, sts)

abbrev Lists := List (Term × List Term)

def listsInsert (ls : Lists) (k : Term) (v : List Term) : Lists :=
  if ls.any (fun e => termCmp e.1 k == .eq) then ls.map (fun e => if termCmp e.1 k == .eq then (e.1, v) else e)
  else ls ++ [(k, v)]

/-- `build_lists`; `none` = does not terminate (unbounded `Vec` growth) -/
def buildLists (d : List Quad) (sts : List STEntry) : Option (Lists × List STEntry) :=
  let acc := listsPhase1 d sts
  acc.seeds.foldl (fun (st : Option (Lists × List STEntry)) seed =>
    match st with
    | none => none
    | some (ls, sts) =>
      match walkBack d acc.preds seed.g (acc.preds.length + 1) seed.s seed.items sts with
      | none => none
      | some (head, items, sts') => some (listsInsert ls head items.reverse, sts'))
    (some ([], acc.sts))

/-! ### leaf writers -/

structure Cfg where
  prefixMap : List (Str × Str)
  indentation : Str

/-- white space of the Turtle / TriG grammar: `WS ::= #x20 | #x9 | #xD | #xA` -/
def isTurtleWs (c : Char) : Bool := c == ' ' || c == '\t' || c == '\r' || c == '\n'

/-- `char::is_whitespace`: the Unicode property White_Space -/
def isUnicodeWs (c : Char) : Bool :=
  let n := c.toNat
  (9 ≤ n && n ≤ 13) || n == 0x20 || n == 0x85 || n == 0xA0 || n == 0x1680 || (0x2000 ≤ n && n ≤ 0x200A)
  || n == 0x2028 || n == 0x2029 || n == 0x202F || n == 0x205F || n == 0x3000

/-- the assertion of `TurtleConfig::with_indentation`: does a configuration with this indentation exist?
Before /repo d9e6461: `indentation.chars().all(char::is_whitespace)`; since (notes/fixes/C04-indent-turtle-ws.diff): only
Turtle white space. -/
def indentAccepted (ind : Str) : Bool :=
  if Gen.PrettyFlags.indentTurtleWs then ind.all isTurtleWs else ind.all isUnicodeWs

/-- `[(P, N)]::get_checked_prefixed_pair` (api/src/prefix/_prefix_map.rs) -/
def getCheckedPrefixedPair (pm : List (Str × Str)) (iri : Str) (check : Str → Bool) : Option (Str × Str) :=
  (pm.foldl (fun (acc : Nat × Option (Str × Str)) pn =>
    let (matched, found) := acc
    let n := pn.2
    if n.isPrefixOf iri && n.length > matched then
      let suffix := iri.drop n.length
      if check suffix then (n.length, some (pn.1, suffix)) else (matched, found)
    else (matched, found)) (0, none)).2

def pnLocalOk (s : Str) : Bool := Re.matchB Gen.PN_LOCAL (s.map Char.toNat)

def isAbsoluteIri (s : Str) : Bool := Re.matchB Gen.IRI_REGEX (s.map Char.toNat)

/-- body of `write_iri` after the `rdf:nil` test -/
def writeIriPlain (cfg : Cfg) (iri : Str) : Str :=
  if !isAbsoluteIri iri then '<' :: iri ++ ['>']
  else
    match getCheckedPrefixedPair cfg.prefixMap iri pnLocalOk with
    | some (pre, suf) => pre ++ ':' :: suf
    | none => '<' :: iri ++ ['>']

/-- position in which a term is written (only used by the fixed variant of `write_iri`) -/
inductive Pos | node | other
  deriving DecidableEq

/-- `write_iri` -/
def writeIri (cfg : Cfg) (pos : Pos) (iri : Str) : Str :=
  if iri == rdfNil && (!Gen.PrettyFlags.nilNodeOnly || pos == .node) then "()".toList
  else writeIriPlain cfg iri

/-- the shorthand test of `write_literal` -/
def shorthand (dt lex : Str) : Bool :=
  let w := lex.map Char.toNat
  (dt == xsdInteger && Re.matchB Gen.TTL_INTEGER w)
  || (dt == xsdDecimal && Re.matchB Gen.TTL_DECIMAL w)
  || (dt == xsdDouble && Re.matchB Gen.TTL_DOUBLE w)
  || (dt == xsdBoolean && Re.matchB Gen.TTL_BOOLEAN w)

/-- `nt::quoted_string` (the model C03 proves invertible, over the regenerated escape table) -/
def quotedString (s : Str) : Str := NT.quotedString s

/-- `write_literal` -/
def writeLiteral (cfg : Cfg) (t : Term) : Str :=
  match t with
  | .lit lex dt =>
    if shorthand dt lex then lex
    else '"' :: quotedString lex ++ '"' :: (if dt != xsdString then '^' :: '^' :: writeIri cfg .other dt else [])
  | .lang lex tag => '"' :: quotedString lex ++ '"' :: '@' :: tag
  | _ => []

/-- is `lex` a token of the Turtle production that re-reads with datatype `dt`? (reader's side) -/
def turtleTokenOk (dt lex : Str) : Bool :=
  let w := lex.map Char.toNat
  (dt == xsdInteger && Re.matchB TurtleTokens.INTEGER w)
  || (dt == xsdDecimal && Re.matchB TurtleTokens.DECIMAL w)
  || (dt == xsdDouble && Re.matchB TurtleTokens.DOUBLE w)
  || (dt == xsdBoolean && Re.matchB TurtleTokens.BOOLEAN w)

/-! ### the writer -/

structure Env where
  d : List Quad
  cfg : Cfg
  lab : List Str

structure W where
  out : Str := []
  indent : Str := []
  sts : List STEntry
  lists : Lists
  lo : Nat := 0
  hi : Nat := 0
  fault : Bool := false
  /-- ghost counters (not in the Rust code; diagnostics for the check): `()` written where the
  Turtle grammar has no collection; literals written bare whose text is not the Turtle token
  of their datatype -/
  ghostNil : Nat := 0
  ghostBare : Nat := 0
  /-- `nesting`: how many `[ … ]` are open (only counted when `Gen.PrettyFlags.maxBnodeNesting` is a cap) -/
  nesting : Nat := 0
  /-- `deferred`: indices of SubTree blank nodes met at the nesting cap, to be described by `write_tree` after the
  roots of the current graph; head = top of the `Vec` (`push` = cons, `pop` = head) -/
  deferred : List Nat := []
  /-- labels added to `labelled` while writing (`self.labelled.insert(bn)` at the nesting cap) -/
  labx : List Str := []

def W.noteIri (w : W) (pos : Pos) (s : Str) : W :=
  if s == rdfNil && pos == .other && !Gen.PrettyFlags.nilNodeOnly then { w with ghostNil := w.ghostNil + 1 } else w
def W.noteLit (w : W) (t : Term) : W :=
  match t with
  | .lit lex dt =>
    if shorthand dt lex then
      (if turtleTokenOk dt lex then w else { w with ghostBare := w.ghostBare + 1 })
    else if dt != xsdString then w.noteIri .other dt else w
  | _ => w

def W.write (w : W) (s : Str) : W := { w with out := w.out ++ s }
def W.writeS (w : W) (s : String) : W := w.write s.toList
def W.newline (w : W) : W := w.write ('\n' :: w.indent)
def W.more (w : W) (env : Env) : W := { w with indent := w.indent ++ env.cfg.indentation }
def W.less (w : W) (env : Env) : W :=
  { w with indent := w.indent.take (w.indent.length - env.cfg.indentation.length) }
def W.setDone (w : W) (i : Nat) : W :=
  { w with sts := w.sts.mapIdx (fun j e => if j == i then { e with st := .done } else e) }

/-- `current_graph_name` -/
def W.graphName (w : W) : GName :=
  match w.sts[w.lo]? with
  | some e => e.g
  | none => none

/-- `find_st_index` -/
def W.findSt (w : W) (t : Term) : Option Nat :=
  (List.range w.sts.length).find? (fun i =>
    w.lo ≤ i && i < w.hi && (match w.sts[i]? with | some e => termCmp e.s t == .eq | none => false))

def listsRemove (ls : Lists) (k : Term) : Option (List Term × Lists) :=
  match ls.find? (fun e => termCmp e.1 k == .eq) with
  | some e => some (e.2, ls.filter (fun e => !(termCmp e.1 k == .eq)))
  | none => none

/-- `self.nesting >= MAX_BNODE_NESTING` (never, in the code before /repo da7f8f8, which had no cap) -/
def atNestingCap (nesting : Nat) : Bool :=
  match Gen.PrettyFlags.maxBnodeNesting with
  | some cap => decide (cap ≤ nesting)
  | none => false

mutual
/-- `write_term` (`pos` only matters for the fixed `write_iri`) -/
def writeTerm (env : Env) : Nat → W → Pos → Term → W
  | 0, w, _, _ => { w with fault := true }
  | f + 1, w, pos, t =>
    match t with
    | .iri s => (w.write (writeIri env.cfg pos s)).noteIri pos s
    | .bnode _ => writeBnode env f w t
    | .lit _ _ => (w.write (writeLiteral env.cfg t)).noteLit t
    | .lang _ _ => w.write (writeLiteral env.cfg t)
    | .var s => w.write ('?' :: s)
    | .triple s p o =>
      let w := w.writeS "<< "
      let w := (writeTerm env f w .other s).writeS " "
      let w := (writeTerm env f w .other p).writeS " "
      let w := (writeTerm env f w .other o).writeS " "
      w.writeS ">>"

/-- `write_bnode` -/
def writeBnode (env : Env) : Nat → W → Term → W
  | 0, w, _ => { w with fault := true }
  | f + 1, w, bn =>
    match listsRemove w.lists bn with
    | some (items, ls) =>
      let w := ({ w with lists := ls }.writeS "(").more env
      let w := items.foldl (fun w item => writeTerm env f w.newline .node item) w
      ((w.less env).newline).writeS ")"
    | none =>
      if isLabelled env.lab bn || isLabelled w.labx bn then
        (match bn with
         | .bnode l => w.write ('_' :: ':' :: l)
         | _ => w)
      else
        match w.findSt bn with
        | some i =>
          (match w.sts[i]? with
           | some e =>
             (match e.st with
              | .subTree =>
                if atNestingCap w.nesting then
                  -- `SubTree if self.nesting >= MAX_BNODE_NESTING`: label it, describe it later
                  (match bn with
                   | .bnode l => { w with labx := l :: w.labx, deferred := i :: w.deferred }.write ('_' :: ':' :: l)
                   | _ => w)
                else
                  let w := { w with nesting := w.nesting + 1 }.writeS "["
                  let w := writeProperties env f w e.s
                  ({ w with nesting := w.nesting - 1 }.writeS "]").setDone i
              | .root => w.writeS "[]"
              | _ => w)
           | none => w)
        | none => w.writeS "[]"

/-- `write_properties` -/
def writeProperties (env : Env) : Nat → W → Term → W
  | 0, w, _ => { w with fault := true }
  | f + 1, w, subject =>
    let w := w.more env
    let g := w.graphName
    let qs := env.d.filter (fun q => termEq q.s subject && gEq q.g g)
    let types := qs.filter (fun q => isIriOf rdfType q.p)
    let pred0 : Option Term := types.head?.map (·.p)
    let w :=
      match types with
      | [] => w
      | t0 :: more =>
        let w := (w.writeS " a ").more env
        let w := writeObject env f w subject t0.p t0.o
        more.foldl (fun w t => writeObject env f ((w.writeS ",").newline) subject t0.p t.o) w
    let (w, pred) := qs.foldl (fun (acc : W × Option Term) t =>
      let (w, pred) := acc
      if isIriOf rdfType t.p then (w, pred)
      else
        match pred with
        | some p0 =>
          if termEq t.p p0 then
            (writeObject env f ((w.writeS ",").newline) subject p0 t.o, pred)
          else
            let w := ((w.writeS ";").less env).newline
            let w := ((writeTerm env f w .other t.p).writeS " ").more env
            (writeObject env f w subject t.p t.o, some t.p)
        | none =>
          let w := w.newline
          let w := ((writeTerm env f w .other t.p).writeS " ").more env
          (writeObject env f w subject t.p t.o, some t.p)) (w, pred0)
    let w := if pred.isSome then w.less env else w
    w.less env

/-- `write_object` -/
def writeObject (env : Env) : Nat → W → Term → Term → Term → W
  | 0, w, _, _, _ => { w with fault := true }
  | f + 1, w, s, p, o =>
    let w := writeTerm env f w .node o
    match w.findSt (.triple s p o) with
    | some i =>
      (match w.sts[i]? with
       | some e =>
         if e.st == .annotation then
           let w := w.writeS " {|"
           let w := writeProperties env f w e.s
           (w.writeS " |}").setDone i
         else w
       | none => w)
    | none => w
end

/-- `write_tree` -/
def writeTree (env : Env) (fuel : Nat) (w : W) (root : Term) : W :=
  let w := w.newline
  let w := writeTerm env fuel w .node root
  let w := writeProperties env fuel w root
  w.writeS ".\n"

/-- the `for i in self.graph_range` loop of `write_graph`: the Roots -/
def writeRoots (env : Env) (fuel : Nat) (w : W) : W :=
  ((List.range w.hi).filter (fun i => w.lo ≤ i)).foldl (fun w i =>
    match w.sts[i]? with
    | some e => if e.st == .root then (writeTree env fuel w e.s).setDone i else w
    | none => w) w

/-- `while let Some(i) = self.deferred.pop()`: the blank nodes that were too deeply nested to be described inline
(each tree may defer more).  `n` bounds the iterations (every entry is deferred at most once); running out = `fault`. -/
def drainDeferred (env : Env) (fuel : Nat) : Nat → W → W
  | 0, w => if w.deferred.isEmpty then w else { w with fault := true }
  | n + 1, w =>
    match w.deferred with
    | [] => w
    | i :: rest =>
      let w := { w with deferred := rest }
      match w.sts[i]? with
      | some e => drainDeferred env fuel n ((writeTree env fuel w e.s).setDone i)
      | none => { w with fault := true }      -- `self.subject_types[i]` out of bounds

/-- `write_graph` -/
def writeGraph (env : Env) (fuel : Nat) (w : W) : W :=
  let w := writeRoots env fuel w
  drainDeferred env fuel (w.sts.length + 1) w

/-- the `while let Some(g) = self.next_graph()` loop of `write_all` -/
def writeNamedGraphs (env : Env) (fuel : Nat) : Nat → W → W
  | 0, w => w
  | n + 1, w =>
    if w.hi ≥ w.sts.length then w
    else
      let start := w.hi
      let g1 : GName := match w.sts[start]? with | some e => e.g | none => none
      let c := ((w.sts.drop start).takeWhile (fun e => gEq g1 e.g)).length
      let w := { w with lo := start, hi := start + c }
      match g1 with
      | none => { w with fault := true }      -- `g1.unwrap()`
      | some g =>
        let w := w.newline.writeS "GRAPH "
        let w := ((writeTerm env fuel w .other g).writeS " {").more env
        let w := writeGraph env fuel w
        writeNamedGraphs env fuel n ((w.less env).writeS "}\n")

/-- `write_prefixes` -/
def writePrefixes (pm : List (Str × Str)) : Str :=
  pm.flatMap (fun pn => "PREFIX ".toList ++ pn.1 ++ ": <".toList ++ pn.2 ++ ">\n".toList)

def termSize : Term → Nat
  | .triple s p o => termSize s + termSize p + termSize o + 1
  | _ => 1

def fuelFor (d : List Quad) : Nat :=
  16 + 4 * (d.foldl (fun n q => n + termSize q.s + termSize q.p + termSize q.o +
      (match q.g with | some g => termSize g | none => 0)) 0)

inductive Outcome where
  /-- `build_lists` loops forever -/
  | diverges
  | done (w : W)

/-- `prettify(dataset, write, config, "")` after the dataset has been collected -/
def prettify (cfg : Cfg) (d : List Quad) : Outcome :=
  let lab := buildLabelled d
  let sts0 := buildSubjectTypes d lab
  match buildLists d sts0 with
  | none => .diverges
  | some (lists, sts) =>
    let upper := (sts.takeWhile (fun e => e.g.isNone)).length
    let env : Env := ⟨d, cfg, lab⟩
    let w : W := { out := writePrefixes cfg.prefixMap, sts := sts, lists := lists, lo := 0, hi := upper }
    let fuel := fuelFor d
    if sts.isEmpty then .done w
    else
      let w := if w.hi > 0 then writeGraph env fuel w else w
      .done (writeNamedGraphs env fuel (sts.length + 1) w)

/-- `TurtleSerializer/TrigSerializer{pretty}.serialize_*` on the quads in stream order -/
def serialize (cfg : Cfg) (quads : List Quad) : Outcome := prettify cfg (mkDataset quads)

/-- `TurtleConfig::default_prefix_map()` -/
def defaultPrefixMap : List (Str × Str) :=
  [("rdf".toList, rdfNs), ("rdfs".toList, "http://www.w3.org/2000/01/rdf-schema#".toList), ("xsd".toList, xsdNs)]

end SophiaModel.Pretty
