/-
C09 — the resolution algorithm that is actually behind `Iri::resolve` / `BaseIri::resolve` /
`BaseIriRef::resolve`: oxiri 0.2.11 `IriParser::parse` with a base (`parse_relative`,
`parse_relative_slash`, `parse_relative_path::<true>`, `parse_path::<true>`, `remove_last_segment`),
transcribed state by state, for inputs whose characters are already known to be valid (base and
reference accepted by the validators; `read_url_codepoint_or_echar` is then a copy).

It is NOT RFC 3986 §5.2: dot segments are removed while the *reference's* path is copied, never from
the base's own path, never from a reference that has a scheme or an authority; `remove_last_segment`
on an authority-less base drops the root "/"; a path that would start with "//" without authority
is an error (which the typed `Resolvable::output_abs` unwraps: a panic).  `Rfc3986.resolve`
(Model/Resolve3986.lean) is the oracle; this model predicts the *specific* wrong value of each known
deviation, so that a known-finding predicate can demand "the implementation returned exactly what
oxiri's algorithm returns" instead of "anything in this region".
-/
import SophiaModel.Model.Resolve3986

namespace SophiaModel.OxiriResolve
open SophiaModel SophiaModel.Rfc3986

def isAlpha (c : Char) : Bool := (c.toNat ≥ 65 && c.toNat ≤ 90) || (c.toNat ≥ 97 && c.toNat ≤ 122)
def isSchemeChar (c : Char) : Bool :=
  isAlpha c || (c.toNat ≥ 48 && c.toNat ≤ 57) || c == '+' || c == '-' || c == '.'

/-- `parse_scheme`: `(alnum | + | - | .)* ':'`; anything else resets to `parse_relative` -/
def schemeLoop : Str → Bool
  | [] => false
  | c :: cs => if c == ':' then true else if isSchemeChar c then schemeLoop cs else false

/-- `parse_scheme_start` takes the scheme branch and `parse_scheme` reaches its `:` -/
def hasScheme : Str → Bool
  | [] => false
  | c :: cs => isAlpha c && schemeLoop cs

/-- `remove_last_segment` on the path part `output[authority_end..]`, kept REVERSED.
`hasAuth` = `authority_end > scheme_end`. -/
def removeLastSegment (hasAuth : Bool) (outR : Str) : Str :=
  match (spanNot ['/'] outR).2 with
  | [] => if hasAuth then ['/'] else []
  | r => r

/-- the dot-segment cases of `parse_path::<true>` at a segment end; `(new reversed path, was a dot case)` -/
def segEnd (hasAuth : Bool) (outR : Str) : Str × Bool :=
  match outR with
  | '.' :: '.' :: '/' :: r => (removeLastSegment hasAuth r, true)     -- ends_with("/..")
  | '.' :: '/' :: r => ('/' :: r, true)                                -- ends_with("/.")
  | ['.'] => ([], true)                                                -- == "."
  | ['.', '.'] => ([], true)                                           -- == ".."
  | _ => (outR, false)

/-- `output[authority_end..].starts_with("//")` -/
def startsDoubleSlash (outR : Str) : Bool :=
  match outR.reverse with
  | '/' :: '/' :: _ => true
  | _ => false

/-- `parse_path::<true>` over the rest of the reference; result: final path and the unread input
(beginning with `?` or `#`, or empty); `none` = `PathStartingWithTwoSlashes` -/
def pathLoop (hasAuth : Bool) : Str → Str → Option (Str × Str)
  | [], outR =>
    let (o, _) := segEnd hasAuth outR
    if !hasAuth && startsDoubleSlash o then none else some (o.reverse, [])
  | c :: cs, outR =>
    if c == '/' || c == '?' || c == '#' then
      let (o, dot) := segEnd hasAuth outR
      if !dot && c == '/' then pathLoop hasAuth cs ('/' :: outR)
      else if !hasAuth && startsDoubleSlash o then none
      else if c == '/' then pathLoop hasAuth cs o
      else some (o.reverse, c :: cs)
    else pathLoop hasAuth cs (c :: outR)

/-- `oxiri::IriRef::resolve` (and `Iri::resolve`): `none` = `Err` (= panic in sophia's typed API).
`base` may be relative (`BaseIriRef`): then the scheme prefix is empty. -/
def resolve (base ref : Str) : Option Str :=
  let b := split base
  let sch : Str := match b.scheme with | some s => s ++ [':'] | none => []
  let hasAuth := b.authority.isSome
  let upAuth : Str := sch ++ (match b.authority with | some a => '/' :: '/' :: a | none => [])
  let upPath : Str := upAuth ++ b.path
  let upQuery : Str := upPath ++ (match b.query with | some q => '?' :: q | none => [])
  let fin (r : Option (Str × Str)) : Option Str := r.map fun pr => upAuth ++ pr.1 ++ pr.2
  match ref with
  | ':' :: _ => none                                        -- `NoScheme`
  | [] => some upQuery
  | _ =>
    if hasScheme ref then some ref                         -- parsed without any use of the base
    else match ref with
      | '/' :: '/' :: _ => some (sch ++ ref)                 -- `parse_relative_slash` → `parse_authority`
      | '/' :: r => fin (pathLoop hasAuth r ['/'])
      | '?' :: _ => some (upPath ++ ref)
      | '#' :: _ => some (upQuery ++ ref)
      | _ => fin (pathLoop hasAuth ref (removeLastSegment hasAuth b.path.reverse))

end SophiaModel.OxiriResolve
