import SophiaModel.Model.Store

/-!
Line-protocol helpers for histories on an in-memory store (matcher / pattern / quad-list parsing,
canonical rendering, the enumerations as images of a quad list).  COPIED verbatim from
`SophiaModel/Driver/C01.lean` (a module defining `main` cannot be imported by another executable):
the C01 driver could import this module instead of keeping its own copy.
-/
namespace SophiaModel.StoreProto
open SophiaModel Proto Term Store

/-! ### parsing matchers (prefix notation) -/

def parseKind : String → Option Kind
  | "iri" => some .iri | "bnode" => some .bnode | "literal" => some .literal
  | "triple" => some .triple | "variable" => some .variable | _ => none

def parseTerms (fuel : Nat) : Nat → List String → Option (List Term × List String)
  | 0, toks => some ([], toks)
  | k + 1, toks => do
    let (t, r) ← Term.parse fuel toks
    let (ts, r') ← parseTerms fuel k r
    pure (t :: ts, r')

def parseTM : Nat → List String → Option (TM × List String)
  | 0, _ => none
  | fuel + 1, toks =>
    match toks with
    | "A" :: r => some (.any, r)
    | "N" :: r => some (.opt none, r)
    | "O" :: r => do let (t, r') ← Term.parse (fuel + 1) r; pure (.opt (some t), r')
    | "S" :: k :: r => do
      let n ← k.toNat?
      let (ts, r') ← parseTerms (fuel + 1) n r
      pure (.arr ts, r')
    | "R" :: k :: r => do          -- fixed-size array: same matcher semantics as a slice
      let n ← k.toNat?
      let (ts, r') ← parseTerms (fuel + 1) n r
      pure (.arr ts, r')
    | "K" :: k :: r => do let kk ← parseKind k; pure (.kind kk, r)
    | "!" :: r => do let (m, r') ← parseTM fuel r; pure (.not m, r')
    | "D" :: h :: r => do let s ← charsOfHex h; pure (.dt s, r)
    | "L" :: h :: r => do let s ← charsOfHex h; pure (.lang s, r)
    | "T" :: r => do
      let (a, r1) ← parseTM fuel r
      let (b, r2) ← parseTM fuel r1
      let (c, r3) ← parseTM fuel r2
      pure (.tri a b c, r3)
    | "F" :: p :: r => do let n ← p.toNat?; pure (.fn n, r)
    | _ => none

def parseGName (fuel : Nat) : List String → Option (GName × List String)
  | "-" :: r => some (none, r)
  | toks => do let (t, r) ← Term.parse fuel toks; pure (some t, r)

def parseGNames (fuel : Nat) : Nat → List String → Option (List GName × List String)
  | 0, toks => some ([], toks)
  | k + 1, toks => do
    let (g, r) ← parseGName fuel toks
    let (gs, r') ← parseGNames fuel k r
    pure (g :: gs, r')

def parseGM : Nat → List String → Option (GM × List String)
  | 0, _ => none
  | fuel + 1, toks =>
    match toks with
    | "GA" :: r => some (.any, r)
    | "GN" :: r => some (.opt none, r)
    | "GO" :: r => do let (g, r') ← parseGName (fuel + 1) r; pure (.opt (some g), r')
    | "GS" :: k :: r => do
      let n ← k.toNat?
      let (gs, r') ← parseGNames (fuel + 1) n r
      pure (.arr gs, r')
    | "GR" :: k :: r => do
      let n ← k.toNat?
      let (gs, r') ← parseGNames (fuel + 1) n r
      pure (.arr gs, r')
    | "GK" :: "none" :: r => some (.kind none, r)
    | "GK" :: k :: r => do let kk ← parseKind k; pure (.kind (some kk), r)
    | "G!" :: r => do let (m, r') ← parseGM fuel r; pure (.not m, r')
    | "GT" :: "none" :: r => some (.tri none, r)
    | "GT" :: r => do
      let (a, r1) ← parseTM (fuel + 1) r
      let (b, r2) ← parseTM (fuel + 1) r1
      let (c, r3) ← parseTM (fuel + 1) r2
      pure (.tri (some (a, b, c)), r3)
    | "GF" :: p :: r => do let n ← p.toNat?; pure (.fn n, r)
    | "Gm" :: r => do let (m, r') ← parseTM (fuel + 1) r; pure (.gn m, r')
    | _ => none

/-- pattern in API order `s p o [g]`; canonical order is `[g, s, p, o]` resp. `[s, p, o]` -/
def parsePat (n : Nat) (toks : List String) : Option Pat := do
  let fuel := toks.length + 2
  let (sm, r1) ← parseTM fuel toks
  let (pm, r2) ← parseTM fuel r1
  let (om, r3) ← parseTM fuel r2
  if n = 4 then
    let (gm, r4) ← parseGM fuel r3
    if r4.isEmpty then pure ⟨[gm, .gn sm, .gn pm, .gn om]⟩ else none
  else
    if r3.isEmpty then pure ⟨[.gn sm, .gn pm, .gn om]⟩ else none

def parseQuads (toks : List String) : Option (List Quad) :=
  let groups := toks.foldr (fun t acc => if t == "|" then [] :: acc else
    match acc with
    | [] => [[t]]
    | x :: xs => (t :: x) :: xs) [[]]
  (groups.filter (fun g => !g.isEmpty)).mapM (fun g => match Quad.parse g with
    | some (q, []) => some q
    | _ => none)

/-! ### rendering -/

def sortStrings (l : List String) : List String := (l.toArray.qsort (· < ·)).toList

def renderQuad (n : Nat) (q : Quad) : String :=
  let s := if n = 4 then q.render else (q.s.render ++ " " ++ q.p.render ++ " " ++ q.o.render)
  s.map (fun c => if c == ' ' then ',' else c)

def renderQuads (n : Nat) (qs : List Quad) : String :=
  match sortStrings (qs.map (renderQuad n)) with
  | [] => "_"
  | l => ";".intercalate l

def dedupStrings : List String → List String
  | a :: b :: r => if a == b then dedupStrings (b :: r) else a :: dedupStrings (b :: r)
  | l => l

def renderTerms (ts : List Term) : String :=
  match dedupStrings (sortStrings (ts.map (fun t => t.render.map (fun c => if c == ' ' then ',' else c)))) with
  | [] => "_"
  | l => ";".intercalate l

def normQ (n : Nat) (q : Quad) : Quad := if n = 4 then q else { q with g := none }

/-- enumerations of `api/src/{dataset,graph}.rs`, as images of a quad list -/
def enumOf (n : Nat) (which : String) (qs : List Quad) : Option (List Term) :=
  let comps (q : Quad) : List Term := if n = 4 then Store.spog q else [q.s, q.p, q.o]
  match which with
  | "subjects" => some (qs.map (·.s))
  | "predicates" => some (qs.map (·.p))
  | "objects" => some (qs.map (·.o))
  | "graphs" => some (qs.filterMap (·.g))
  | "iris" => some ((qs.flatMap comps).flatMap atoms |>.filter (fun t => t.kind == .iri))
  | "bnodes" => some ((qs.flatMap comps).flatMap atoms |>.filter (fun t => t.kind == .bnode))
  | "literals" => some ((qs.flatMap comps).flatMap atoms |>.filter (fun t => t.kind == .literal))
  | "vars" => some ((qs.flatMap comps).flatMap atoms |>.filter (fun t => t.kind == .variable))
  | "qtriples" => some ((qs.flatMap comps).flatMap constituents |>.filter (fun t => t.kind == .triple))
  | _ => none

/-- terms are compared up to `Term::eq`: render a canonical representative (folded tags) so that
both sides print the same text for equal terms -/
def canonTerm : Term → Term
  | .lang l t => .lang l (foldTag t)
  | .triple s p o => .triple (canonTerm s) (canonTerm p) (canonTerm o)
  | t => t

def canonQuad (q : Quad) : Quad := ⟨canonTerm q.s, canonTerm q.p, canonTerm q.o, q.g.map canonTerm⟩

end SophiaModel.StoreProto
