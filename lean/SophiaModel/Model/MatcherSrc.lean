/-
How `constant()` is WRITTEN in the matcher impls of `api/src/term/matcher/*.rs`: the shapes the
extractor (tools/extractors/c01.py, `matcher_consts`) recognises, and their meaning over the
transcribed matchers `TM` / `GM` of `Model/Matcher.lean`. `Gen/MatcherTable.lean` is regenerated
from the source on every run; `SophiaProofs.C01.tm_constant_from_source` / `gm_constant_from_source`
prove that `TM.constant` / `GM.constant` are exactly what the regenerated table says.
-/
import SophiaModel.Model.Matcher

namespace SophiaModel.MatcherSrc
open SophiaModel

inductive ConstImpl
  | never       -- not overridden: the trait default `None`
  | selfOpt     -- `self.as_ref()` (resp. `.map(GraphName::as_ref)`): an `Option` of the constant
  | single      -- `if N == 1 / self.len() == 1 { Some(&self[0]) } else { None }`
  | inner       -- `self.0.constant()`
  | innerSome   -- `self.0.constant().map(Some)`
  deriving Repr, DecidableEq, Inhabited

def lookupImpl (tab : List (String × ConstImpl)) (ty : String) : Option ConstImpl := tab.lookup ty

/-- the Rust impl types a `TM` constructor stands for (`.arr` stands for both `[T; N]` and `&[T]`) -/
def TM.implTypes : TM → List String
  | .any => ["Any"]
  | .opt _ => ["Option<T>"]
  | .arr _ => ["[T; N]", "&[T]"]
  | .kind _ => ["TermKind"]
  | .not _ => ["Not<M>"]
  | .dt _ => ["DatatypeMatcher<T>"]
  | .lang _ => ["LanguageTagMatcher<T>"]
  | .tri _ _ _ => ["(S, P, O)"]
  | .fn _ => ["F"]

def GM.implTypes : GM → List String
  | .any => ["Any"]
  | .opt _ => ["Option<Option<T>>"]
  | .arr _ => ["[GraphName<T>; N]", "&[GraphName<T>]"]
  | .kind _ => ["Option<TermKind>"]
  | .not _ => ["Not<M>"]
  | .tri _ => ["Option<(S, P, O)>"]
  | .fn _ => ["F"]
  | .gn _ => ["TermMatcherGn<M>"]

/-- what a `constant()` written in shape `c` answers on the transcribed matcher `m` -/
def TM.interp (c : ConstImpl) (m : TM) : Option Term :=
  match c, m with
  | .selfOpt, .opt o => o
  | .single, .arr [t] => some t
  | _, _ => none

def GM.interp (c : ConstImpl) (m : GM) : Option GName :=
  match c, m with
  | .selfOpt, .opt o => o
  | .single, .arr [g] => some g
  | .innerSome, .gn tm => tm.constant.map some
  | _, _ => none

/-- the impl types the transcription covers -/
def tmTypes : List String :=
  [TM.any, .opt none, .arr [], .kind .iri, .not .any, .dt [], .lang [], .tri .any .any .any, .fn 0].flatMap TM.implTypes
def gmTypes : List String :=
  [GM.any, .opt none, .arr [], .kind none, .not .any, .tri none, .fn 0, .gn .any].flatMap GM.implTypes

end SophiaModel.MatcherSrc
