/-
C16 — call depth as a cost semantics.

Every function below is an *instrumented* copy of a function of /repo: it returns the function's
result together with the greatest number of simultaneously active calls **of that function** that
the evaluation needs (its call depth).  A function that calls itself on the remainder of its data
has depth `1 + depth (rest)`; a function that loops has depth `1`.  Each site exists in BOTH
formulations: `…Rec` is the text that is in /repo today wherever `Gen.RecursionSites.sites` says
`selfRecursiveOnData`, `…Loop` is the same computation written as a loop (what a repair produces, and
what the table says once the repair is in).  Which formulation stands for a site is decided by the
generated table only (`formulation`).

That one active call occupies one machine stack frame (unoptimised builds) is NOT part of this file:
it is the assumption the differential tie validates (harness/props/c16).
-/
import SophiaModel.Basic.Term
import SophiaModel.Model.DepthNest
import SophiaModel.Gen.RecursionSites

namespace SophiaModel.Depth
open SophiaModel.Gen.RecursionSites

/-! ## The five matching iterators (`inmem/src/{dataset,graph}/_iter.rs`)

`GspoMatchingIterator` has 4 positions, `BcdMatchingIterator` / `SpoMatchingIterator` 3,
`CdMatchingIterator` / `BcMatchingIterator` 2.  All five `fn next` have the same text up to the number
of positions: every position but the last re-evaluates its matcher only when the index changed
(`if si != self.s.i { self.s.update(si, ..) }`), the last one always (`self.o.update(oi, ..)`); the
first position whose matcher said no skips the row. -/

/-- `TermData { m, i, t, b }` / `GraphNameData` without the matcher: last index seen, did it match -/
structure Pos where
  i : Nat
  b : Bool
  deriving Repr, DecidableEq, Inhabited

/-- one index per position (`[TI::Index; 3]` / `[TI::Index; 4]`): the positions whose matcher result
is cached, and the last one -/
structure Row where
  idx : List Nat
  last : Nat
  deriving Repr, DecidableEq, Inhabited

/-- the matcher caches of the iterator -/
structure Cache where
  cached : List Pos
  last : Pos
  deriving Repr, DecidableEq, Inhabited

/-- the matchers of the iterator (on term indexes) -/
structure Matchers where
  cached : List (Nat → Bool)
  last : Nat → Bool

/-- the cached positions, in order: `if xi != self.x.i { self.x.update(xi, ..) }  if !self.x.b { skip }` -/
def stageK : List (Nat → Bool) → List Pos → List Nat → List Pos × Bool
  | m :: ms, c :: cs, x :: xs =>
    let c' : Pos := if x != c.i then ⟨x, m x⟩ else c
    if !c'.b then (c' :: cs, false)
    else
      let r := stageK ms cs xs
      (c' :: r.1, r.2)
  | _, cs, _ => (cs, true)

/-- the body of `fn next` between `*self.iter.next()?` and the skip/yield decision: new caches and
"the row is yielded".  The last position is always re-evaluated (`self.o.update(oi, ..)`). -/
def stage (ms : Matchers) (c : Cache) (r : Row) : Cache × Bool :=
  let s := stageK ms.cached c.cached r.idx
  if !s.2 then (⟨s.1, c.last⟩, false)
  else (⟨s.1, ⟨r.last, ms.last r.last⟩⟩, ms.last r.last)

/-- `Self::new`: `TermData::new` on every position but the last, `TermData::uninit` on the last -/
def initCache (ms : Matchers) (first : Row) : Cache :=
  ⟨(ms.cached.zip first.idx).map (fun (m, x) => ⟨x, m x⟩), ⟨first.last, true⟩⟩

structure NextResult where
  item : Option Row
  cache : Cache
  rest : List Row
  depth : Nat
  deriving Repr, DecidableEq

/-- `fn next` as written in /repo: `return self.next()` / tail `self.next()` on a skipped row -/
def nextRec (ms : Matchers) : Cache → List Row → NextResult
  | c, [] => ⟨none, c, [], 1⟩
  | c, r :: rest =>
    let s := stage ms c r
    if s.2 then ⟨some r, s.1, rest, 1⟩
    else
      let x := nextRec ms s.1 rest
      { x with depth := x.depth + 1 }

/-- the same function with the self call turned into `loop { … continue }` -/
def nextLoop (ms : Matchers) : Cache → List Row → NextResult
  | c, [] => ⟨none, c, [], 1⟩
  | c, r :: rest =>
    let s := stage ms c r
    if s.2 then ⟨some r, s.1, rest, 1⟩ else nextLoop ms s.1 rest

/-- the family of the harness: `n` rows rejected by a closure matcher on the last position, then one
it accepts; `k` positions before the last, all matched by `Any` -/
def famMs (k : Nat) (t : Nat) : Matchers := ⟨List.replicate k (fun _ => true), fun i => i == t⟩
def famRow (k : Nat) (j : Nat) : Row := ⟨List.replicate k 0, j⟩
def famCache (k : Nat) (c : Pos) : Cache := ⟨List.replicate k ⟨0, true⟩, c⟩
def famRows (k : Nat) (n : Nat) : List Row := (List.range n).map (famRow k) ++ [famRow k n]

/-! ## `quoted_string` (`turtle/src/serializer/nt.rs`) -/

def isCut (c : Char) : Bool := c == '\n' || c == '\r' || c == '\\' || c == '"'

def escOf (c : Char) : List Char :=
  if c == '\n' then ['\\', 'n'] else if c == '\r' then ['\\', 'r']
  else if c == '"' then ['\\', '"'] else ['\\', '\\']

/-- the `for (pos, chr) in txt.iter().enumerate()` search: text before the first cut character, and
(cut character, text after it) if there is one -/
def splitCut : List Char → List Char × Option (Char × List Char)
  | [] => ([], none)
  | c :: cs =>
    if isCut c then ([], some (c, cs))
    else
      let r := splitCut cs
      (c :: r.1, r.2)

theorem splitCut_rest_length {txt pre : List Char} {c : Char} {rest : List Char}
    (h : splitCut txt = (pre, some (c, rest))) : rest.length < txt.length := by
  induction txt generalizing pre with
  | nil => simp [splitCut] at h
  | cons a as ih =>
    unfold splitCut at h
    split at h
    · simp at h; obtain ⟨_, _, rfl⟩ := h; simp
    · simp at h
      have := ih (pre := (splitCut as).1) (by rw [← h.2])
      simp; omega

/-- as written: writes the prefix and the escape, then `quoted_string(w, &txt[cut + 1..])` unless
`cut + 1 >= txt.len()` -/
def quotedStringRec (txt : List Char) : List Char × Nat :=
  match h : splitCut txt with
  | (pre, none) => (pre, 1)
  | (pre, some (c, rest)) =>
    if rest.isEmpty then (pre ++ escOf c, 1)
    else
      let r := quotedStringRec rest
      (pre ++ escOf c ++ r.1, r.2 + 1)
termination_by txt.length
decreasing_by exact splitCut_rest_length h

/-- the loop formulation: one pass, every cut character replaced -/
def quotedStringLoop (txt : List Char) : List Char × Nat :=
  (txt.flatMap (fun c => if isCut c then escOf c else [c]), 1)

/-! ## `graph_rec` (`sparql/src/exec.rs`)

`sel g` stands for `self.select(inner, &[Some(g)], Some(&b))` (with `?`); the chained iterators are
represented by the list of their items. -/

def graphRec {G E S : Type} (sel : G → Except E (List S)) : List G → Except E (List S) × Nat
  | [] => (.ok [], 1)
  | g :: gs =>
    match sel g with
    | .error e => (.error e, 1)
    | .ok r =>
      let x := graphRec sel gs
      (x.1.map (r ++ ·), x.2 + 1)

def graphLoopAux {G E S : Type} (sel : G → Except E (List S)) : List S → List G → Except E (List S)
  | acc, [] => .ok acc
  | acc, g :: gs =>
    match sel g with
    | .error e => .error e
    | .ok r => graphLoopAux sel (acc ++ r) gs

def graphLoop {G E S : Type} (sel : G → Except E (List S)) (gs : List G) : Except E (List S) × Nat :=
  (graphLoopAux sel [] gs, 1)

/-! ## `populate_list` / `mark_list_node` (`jsonld/src/serializer/engine.rs`)

A well-formed list is given by its cells in order; `conv` stands for `convert_rdf_object` (with `?`)
on the cell's `rdf:first`. -/

def populateListRec {I E J : Type} (conv : I → Except E J) : List J → List I → Except E (List J) × Nat
  | acc, [] => (.ok acc, 1)
  | acc, [c] =>
    match conv c with
    | .error e => (.error e, 1)
    | .ok j => (.ok (acc ++ [j]), 1)
  | acc, c :: c' :: cs =>
    match conv c with
    | .error e => (.error e, 1)
    | .ok j =>
      let x := populateListRec conv (acc ++ [j]) (c' :: cs)
      (x.1, x.2 + 1)

def populateListLoopAux {I E J : Type} (conv : I → Except E J) : List J → List I → Except E (List J)
  | acc, [] => .ok acc
  | acc, c :: cs =>
    match conv c with
    | .error e => .error e
    | .ok j => populateListLoopAux conv (acc ++ [j]) cs

def populateListLoop {I E J : Type} (conv : I → Except E J) (acc : List J) (cells : List I) :
    Except E (List J) × Nat :=
  (populateListLoopAux conv acc cells, 1)

/-- what `mark_list_node` looks at for one node: can it be marked (unique parent in the same graph,
`is_list_node`, not the JSON-LD 1.0 `rdf:first` exception), and does the walk continue to the
parent (`ps_id.starts_with("_:") && pp == rdf:rest`) -/
structure Cell where
  id : Nat
  markable : Bool
  continues : Bool
  deriving Repr, DecidableEq

/-- cells from the seed (the cell whose `rdf:rest` is `rdf:nil`) towards the head; result: marked ids -/
def markRec : List Cell → List Nat × Nat
  | [] => ([], 0)
  | c :: parents =>
    if c.markable then
      if c.continues then
        let x := markRec parents
        (c.id :: x.1, x.2 + 1)
      else ([c.id], 1)
    else ([], 1)

def markLoopAux : List Nat → List Cell → List Nat
  | acc, [] => acc
  | acc, c :: parents =>
    if c.markable then
      if c.continues then markLoopAux (acc ++ [c.id]) parents else acc ++ [c.id]
    else acc

def markLoop (cells : List Cell) : List Nat × Nat := (markLoopAux [] cells, min 1 cells.length)

/-- `find_subject` (_pretty.rs): binary search written as recursion on half of the slice.
`cmp x` is `Term::cmp(&swt[m].1, s)`. -/
def findSubject (cmp : Nat → Ordering) (swt : List Nat) : Option Nat × Nat :=
  if h : swt.length = 0 then (none, 1)
  else
    let m := swt.length / 2
    match cmp (swt[m]'(by omega)) with
    | .lt =>
      let r := findSubject cmp (swt.drop (m + 1))
      (r.1.map (· + m + 1), r.2 + 1)
    | .eq => (some m, 1)
    | .gt =>
      let r := findSubject cmp (swt.take m)
      (r.1, r.2 + 1)
termination_by swt.length
decreasing_by
  · simp; omega
  · simp; omega

/-- number of binary digits -/
def bits (n : Nat) : Nat := if n = 0 then 0 else bits (n / 2) + 1
decreasing_by omega

/-- `bgp_rec` (sparql/src/bgp.rs): one level per triple *pattern*; `ms p b` are the bindings obtained
from the matches of pattern `p` under binding `b` (any number of them) -/
def bgpRec {P B : Type} (ms : P → B → List B) : List P → B → List B × Nat
  | [], b => ([b], 1)
  | p :: ps, b =>
    let rs := (ms p b).map (bgpRec ms ps)
    (rs.flatMap (·.1), 1 + rs.foldl (fun d r => max d r.2) 0)

/-! ## `DedupIterator::next` (`turtle/src/serializer/_pretty.rs`)

`previous: Option<Item>`; an item equal to the previous one is skipped. -/

structure DedupResult (α : Type) where
  item : Option α
  prev : Option α
  rest : List α
  depth : Nat
  deriving Repr, DecidableEq

/-- as a `loop` (today's text) -/
def dedupLoop {α : Type} [DecidableEq α] : Option α → List α → DedupResult α
  | prev, [] => ⟨none, prev, [], 1⟩
  | prev, x :: xs => if some x ≠ prev then ⟨some x, some x, xs, 1⟩ else dedupLoop prev xs

/-- with the skip written as `return self.next()` -/
def dedupRec {α : Type} [DecidableEq α] : Option α → List α → DedupResult α
  | prev, [] => ⟨none, prev, [], 1⟩
  | prev, x :: xs =>
    if some x ≠ prev then ⟨some x, some x, xs, 1⟩
    else
      let r := dedupRec prev xs
      { r with depth := r.depth + 1 }

/-! ## Sites of the generated table -/

/-- the functions of /repo that `Gen.RecursionSites.sites` speaks about -/
inductive Fn where
  | gspoNext | bcdNext | cdNext | spoNext | bcNext
  | quotedString | graphRec | cmpBindingsWith | bgpRec | populateList | markListNode | jsonify
  | findSubject | prettyWriteTerm | dedupNext | nq | termCmp
  | ntWriteTermCycle | selectCycle | populateConvertCycle | prettyWriteCycle | termEq | termHash
  | checkExists
  deriving Repr, DecidableEq, Inhabited

def Fn.ofName : String → Option Fn
  | "GspoMatchingIterator::next" => some .gspoNext
  | "BcdMatchingIterator::next" => some .bcdNext
  | "CdMatchingIterator::next" => some .cdNext
  | "SpoMatchingIterator::next" => some .spoNext
  | "BcMatchingIterator::next" => some .bcNext
  | "nt::quoted_string" => some .quotedString
  | "exec::graph_rec" => some .graphRec
  | "exec::cmp_bindings_with" => some .cmpBindingsWith
  | "exec::check_exists" => some .checkExists
  | "bgp::bgp_rec" => some .bgpRec
  | "engine::populate_list" => some .populateList
  | "engine::mark_list_node" => some .markListNode
  | "engine::jsonify" => some .jsonify
  | "pretty::find_subject" => some .findSubject
  | "pretty::write_term" => some .prettyWriteTerm
  | "pretty::dedup_next" => some .dedupNext
  | "cnq::nq" => some .nq
  | "term::cmp" => some .termCmp
  | "nt::write_term~write_triple" => some .ntWriteTermCycle
  | "exec::select~operators" => some .selectCycle
  | "engine::populate_list~convert_rdf_object" => some .populateConvertCycle
  | "pretty::write_term~write_properties" => some .prettyWriteCycle
  | "term::eq" => some .termEq
  | "term::hash" => some .termHash
  | _ => none

/-- does the table's class select the self-recursive text? -/
def isRec : SiteClass → Bool
  | .selfRecursiveOnData => true
  | _ => false

/-- positions before the last one -/
def Fn.arity : Fn → Nat
  | .gspoNext => 3
  | .bcdNext | .spoNext => 2
  | _ => 1

/-! ### the harness families: inputs of size `n` along ONE size dimension, constant nesting -/

/-- one literal of `n` characters that need escaping -/
def famLiteral (n : Nat) : Term := .lit (List.replicate n '\n') xsdString

/-- ORDER BY with two criteria, the first of which ties on every pair of rows -/
def famCriteria : List Nat := [0, 1]
def famEv (c : Nat) (_ _ : Nat) : Ordering := if c = 0 then .eq else .lt

/-- two triple patterns; the first has `n` matches, each of which has one under the second -/
def famPatterns : List Nat := [0, 1]
def famMatches (n : Nat) (p : Nat) (b : Nat) : List Nat := if p = 0 then List.replicate n b else [b]

/-- node 0 names a graph (in the default graph, with an "@graph" entry per node of that graph);
nodes 1..n are the subjects described in that named graph -/
def famJNodes (n : Nat) : List JNode :=
  ⟨false, true, false, some ((List.range n).map (· + 1))⟩ ::
    List.replicate n ⟨false, false, false, none⟩

/-- `SELECT ?g { GRAPH ?g { ?s ?p ?o } }` -/
def famQuery : Alg := .project (.graphVar .bgp)

/-- `?s = <x:match>` (the FILTER of the harness): a binary operator on two leaves -/
def famExpr : Expr := .node (.cons .leaf (.cons .leaf .nil))

/-- one flat list of `n` items, as the object that `convert_rdf_object` is called on -/
def famList (n : Nat) : LItem := .sub (LItems.ofList (List.replicate n .leaf))

/-- the arcs of one subject: `k` plain objects and one collection of `n` plain items -/
def famListArc (n : Nat) : PArcs :=
  .cons .atom (.coll (PTs.ofList (List.replicate n .atom))) false .nil .nil
def famArcsAux (n : Nat) : Nat → PArcs
  | 0 => famListArc n
  | k + 1 => .cons .atom .atom false .nil (famArcsAux n k)
def famArcs (n : Nat) : PArcs := famArcsAux n n

/-- the deepest tree that the writer sees for a chain of `n` blank nodes: the whole chain, or —
when _pretty.rs caps the nesting of `[ … ]` at `c` — a piece of `c` links -/
def famChain (n : Nat) : PArcs :=
  let k := match prettyBnodeNestingCap with
    | none => n
    | some c => min n c
  PArcs.cons .atom (chainPT k) false .nil .nil

/-- the shape of the harness input (all shapes have `n` statements / items / rows and no quoted
triple; `bnodeChain` = `n` blank nodes linked in a chain) -/
inductive Shape where
  | flat
  | bnodeChain
  deriving Repr, DecidableEq, Inhabited

/-- what a self call on the remainder of the data costs when /repo's text has one that this file
does not transcribe: one call per element (the convention for an unknown data recursion) -/
def assumedLinear (n : Nat) : Nat := n + 1

/-- depth of the model of site `f`, in the formulation selected by `cls`, on the harness family of
shape `sh` and size `n` -/
def siteDepth (f : Fn) (cls : SiteClass) (sh : Shape) (n : Nat) : Nat :=
  match f with
  | .gspoNext | .bcdNext | .cdNext | .spoNext | .bcNext =>
    let k := f.arity
    let go := if isRec cls then nextRec else nextLoop
    (go (famMs k n) (famCache k ⟨0, true⟩) (famRows k n)).depth
  | .quotedString =>
    ((if isRec cls then quotedStringRec else quotedStringLoop) (List.replicate n '\n')).2
  | .graphRec =>
    let sel : Nat → Except Unit (List Nat) := fun g => .ok [g]
    ((if isRec cls then graphRec sel else graphLoop sel) (List.range n)).2
  | .populateList =>
    let conv : Nat → Except Unit Nat := fun i => .ok i
    ((if isRec cls then populateListRec conv [] else populateListLoop conv []) (List.range n)).2
  | .markListNode =>
    let cells := (List.range n).map (fun i => (⟨i, true, true⟩ : Cell))
    ((if isRec cls then markRec else markLoop) cells).2
  | .dedupNext =>
    -- one subject with `n` statements: `n` equal (graph, subject) pairs after the first
    ((if isRec cls then dedupRec else dedupLoop) (some 0) (List.replicate n 0)).depth
  | .findSubject =>
    -- worst case of the search: the subject is greater than every entry
    if isRec cls then assumedLinear n
    else match cls with
      | .loop => 1
      | _ => (findSubject (fun _ => .lt) (List.range n)).2
  | .cmpBindingsWith =>
    if isRec cls then assumedLinear n else orderByDepth famEv famCriteria (List.range n)
  | .bgpRec =>
    if isRec cls then assumedLinear n else (bgpRec (famMatches n) famPatterns 0).2
  | .jsonify =>
    if isRec cls then assumedLinear n else intoJsonDepth (famJNodes n)
  | .nq =>
    if isRec cls then assumedLinear n else (nqW (famLiteral n)).2
  | .termCmp =>
    if isRec cls then assumedLinear n else (termCmpD (famLiteral n) (famLiteral n)).2
  | .termEq =>
    if isRec cls then assumedLinear n else (termEqD (famLiteral n) (famLiteral n)).2
  | .termHash =>
    if isRec cls then assumedLinear n else (termHashD (famLiteral n)).2
  | .ntWriteTermCycle =>
    if isRec cls then assumedLinear n else (ntWriteTerm (famLiteral n)).2
  | .selectCycle =>
    if isRec cls then assumedLinear n else selectD n famQuery
  | .checkExists =>
    -- the expression is walked once per operator, whatever the number `n` of rows / named graphs
    if isRec cls then assumedLinear n else checkD n famExpr
  | .populateConvertCycle =>
    if isRec cls then assumedLinear n else convertD (famList n)
  | .prettyWriteTerm | .prettyWriteCycle =>
    if isRec cls then assumedLinear n
    else match sh with
      | .flat => wTree .atom (famArcs n)
      | .bnodeChain => wTree .atom (famChain n)

/-- what the property allows at a site on the `flat` shape: the general bound of the site's model
(`SophiaProofs.C16`) at the nesting of the harness family — a constant, plus the logarithm for the
binary search -/
def siteBound (f : Fn) (n : Nat) : Nat :=
  match f with
  | .gspoNext | .bcdNext | .cdNext | .spoNext | .bcNext
  | .quotedString | .graphRec | .populateList | .markListNode | .dedupNext => 1
  | .findSubject => bits n + 1
  | .cmpBindingsWith => famCriteria.length + 1
  | .bgpRec => famPatterns.length + 1
  | .jsonify => 2
  | .nq => 2 + nesting (famLiteral 0)
  | .termCmp | .termEq | .termHash => 1 + nesting (famLiteral 0)
  | .ntWriteTermCycle => 1 + 2 * nesting (famLiteral 0)
  | .selectCycle => 3 * famQuery.height + 1
  | .checkExists => 3 * famExpr.height + 1
  | .populateConvertCycle => 1 + 2 * (famList 0).nest
  -- one collection below the subject
  | .prettyWriteTerm | .prettyWriteCycle => 5 + 6 * 1

/-! ## Harness sites (`harness/props/c16`): which functions of /repo a request drives, on which shape -/

def flatFns (fs : List Fn) : Option (List (Fn × Shape)) := some (fs.map (·, .flat))

def harnessFns : String → Option (List (Fn × Shape))
  -- a matcher (closure / array of constants) rejects `n` rows before the first it accepts
  | "iter_gspo_g" | "iter_gspo_first" | "iter_gspo_p" | "iter_gspo_last" | "fast_gspo_s" | "match_slice_g"
  | "mut_remove_ds" => flatFns [.gspoNext]
  | "iter_bcd_first" | "iter_bcd_p" | "iter_bcd_last" | "fast_bcd_g" => flatFns [.bcdNext]
  | "iter_cd_first" | "iter_cd_last" | "fast_cd_s" => flatFns [.cdNext]
  | "iter_spo_first" | "iter_spo_p" | "iter_spo_last" | "fastg_spo_p" | "match_slice_s" => flatFns [.spoNext]
  | "iter_bc_first" | "iter_bc_last" | "fastg_bc_s" => flatFns [.bcNext]
  -- `range(..).filter(..)` (std's Filter); `n` rows removed / retained, none skipped by a matching iterator
  | "iter_filter_o" | "mut_retain_ds" | "mut_remove_g" | "mut_fast_ds" => flatFns []
  -- one literal with `n` escapes
  | "nt_literal" => flatFns [.quotedString, .ntWriteTermCycle]
  -- `n` literals with one escape each
  | "nq_stream" => flatFns [.ntWriteTermCycle]
  | "c14n_literal" | "c14n_many" => flatFns [.nq, .termCmp, .termEq, .termHash]
  -- `graph` first evaluates the inner pattern with the empty graph matcher `&[]` (for the variables):
  -- that scan goes through GspoMatchingIterator and skips every quad of every named graph
  | "sparql_graph" => flatFns [.graphRec, .gspoNext, .selectCycle, .bgpRec]
  -- the iterator behind a BGP skips nothing here (its matchers accept every row)
  | "sparql_bgp" => flatFns [.bgpRec, .selectCycle]
  -- FILTER / BIND / ORDER BY: `check_exists` walks the expression before the evaluation
  | "sparql_filter" | "sparql_ops" | "sparql_exists" => flatFns [.bgpRec, .selectCycle, .checkExists]
  | "sparql_orderby" => flatFns [.cmpBindingsWith, .bgpRec, .selectCycle, .checkExists]
  -- one list of `n` items
  | "jsonld_list" => flatFns [.markListNode, .populateList, .populateConvertCycle, .jsonify]
  -- `n / 2` lists of two items: the walks along a list are two cells long
  | "jsonld_lists" => flatFns [.populateConvertCycle, .jsonify]
  | "jsonld_graphs" | "jsonld_nodes" | "jsonld_chain" => flatFns [.jsonify]
  -- one subject with `n` objects: `n - 1` consecutive duplicates of (graph, subject)
  | "turtle_objects" => flatFns [.dedupNext, .prettyWriteCycle, .prettyWriteTerm, .findSubject]
  | "turtle_list" | "turtle_list_i0" | "turtle_lists" | "turtle_subjects" | "turtle_literal" | "trig_graphs" =>
    flatFns [.prettyWriteCycle, .prettyWriteTerm, .findSubject]
  -- every blank node of the chain is the subject of ONE statement: nothing for DedupIterator to skip
  | "turtle_chain" | "turtle_chain_i0" | "trig_chain_tab" => some [(.prettyWriteCycle, .bnodeChain), (.prettyWriteTerm, .bnodeChain), (.findSubject, .flat)]
  -- rio parsers / formatters, json-ld, `insert`: no anchored function scales with the number of statements
  | "parse_nt" | "parse_nq" | "parse_turtle" | "parse_turtle_list" | "parse_turtle_objects" | "parse_trig"
  | "parse_rdfxml" | "parse_jsonld" | "parse_jsonld_list" | "rdfxml_ser" | "turtle_stream" | "trig_stream" =>
    flatFns []
  | _ => none

/-- the row of the generated table for `f` (first row whose name maps to `f`) -/
def classOf (tbl : List (String × SiteClass)) (f : Fn) : Option SiteClass :=
  (tbl.find? (fun s => Fn.ofName s.1 == some f)).map (·.2)

end SophiaModel.Depth
