/-
C09 — the typed constructors on top of the three regex validators, as wired in /repo
(Gen/IriWiring.lean, regenerated on every run):

  `Iri::new`, `IriRef::new`                        iri/src/_wrapper.rs
  `Iri::as_base/to_base`, `IriRef::as_base/to_base` = `oxiri::{Iri,IriRef}::parse(..).unwrap()`
  `is_valid_suffixed_iri_ref`                      iri/src/_regex.rs
  `Namespace::new`, `Namespace::get`               api/src/ns/_namespace.rs

Strings are lists of code points (`List Nat`, as for `Re.matchB`).  oxiri's recogniser without base
is the hand model `Backend.Oxiri.abs/ref` of C08 (tied to the real crate by the `m` requests of
both harnesses: `bnew`, `brnew`).
-/
import SophiaModel.Regex.Decide
import SophiaModel.Gen.IriRegexes
import SophiaModel.Gen.IriWiring
import SophiaModel.Model.Backend

namespace SophiaModel.IriWrapper
open SophiaModel Re
open SophiaModel.Gen.IriWiring (Validator)

/-- the regex behind each validator function -/
def vre : Validator → Re
  | .abs => Gen.Iri.IRI_REGEX
  | .rel => Gen.Iri.IRELATIVE_REF_REGEX
  | .ref => Gen.Iri.IRI_REF_REGEX

def accepts (v : Validator) (w : List Nat) : Bool := matchB (vre v) w

/-- `is_absolute_iri_ref`, `is_relative_iri_ref`, `is_valid_iri_ref` -/
def isAbsolute (w : List Nat) : Bool := accepts .abs w
def isRelative (w : List Nat) : Bool := accepts .rel w
def isValidRef (w : List Nat) : Bool := accepts .ref w

/-- `Iri::new(w).is_ok()` -/
def iriNew (w : List Nat) : Bool := accepts Gen.IriWiring.iriNew w
/-- `IriRef::new(w).is_ok()` -/
def iriRefNew (w : List Nat) : Bool := accepts Gen.IriWiring.iriRefNew w

/-- `oxiri::Iri::parse(w).is_ok()` = `BaseIri::new(w).is_ok()` (hand model) -/
def baseIriNew (w : List Nat) : Bool := matchB Backend.Oxiri.abs w
/-- `oxiri::IriRef::parse(w).is_ok()` = `BaseIriRef::new(w).is_ok()` (hand model) -/
def baseIriRefNew (w : List Nat) : Bool := matchB Backend.Oxiri.ref w

/-- outcome of calling a method on a value that may not be constructible -/
inductive Outcome | notConstructible | ok | panic
  deriving Repr, DecidableEq, Inhabited

/-- `Iri::new(w).map(|i| i.as_base())` (and `to_base`): the `unwrap` of `BaseIri::new` -/
def iriAsBase (w : List Nat) : Outcome :=
  if iriNew w then (if baseIriNew w then .ok else .panic) else .notConstructible
/-- `IriRef::new(w).map(|i| i.as_base())` (and `to_base`) -/
def iriRefAsBase (w : List Nat) : Outcome :=
  if iriRefNew w then (if baseIriRefNew w then .ok else .panic) else .notConstructible

def concat (nsFirst : Bool) (ns sfx : List Nat) : List Nat := if nsFirst then ns ++ sfx else sfx ++ ns

/-- `is_valid_suffixed_iri_ref(ns, suffix)` -/
def suffixed (ns : List Nat) : Option (List Nat) → Bool
  | none => accepts Gen.IriWiring.suffixedNone ns
  | some sfx => accepts Gen.IriWiring.suffixedSome (concat Gen.IriWiring.suffixedNsFirst ns sfx)

/-- `Namespace::new(ns).is_ok()` = `IriRef::new(ns).is_ok()` -/
def namespaceNew (ns : List Nat) : Bool := iriRefNew ns

/-- the string an `NsTerm { ns, suffix }` stands for (`Display`, `iriref()`) -/
def nsTermStr (ns sfx : List Nat) : List Nat := concat Gen.IriWiring.nsTermNsFirst ns sfx

/-- `Namespace::new(ns).map(|n| n.get(sfx).is_ok())`: `none` when the namespace itself is rejected -/
def namespaceGet (ns sfx : List Nat) : Option Bool :=
  if namespaceNew ns then some (iriRefNew (nsTermStr ns sfx)) else none

end SophiaModel.IriWrapper
