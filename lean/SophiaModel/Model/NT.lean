/-
N-Triples / N-Quads: the writer of `turtle/src/serializer/{nt,nq}.rs` transcribed, and an
independent reader written from the W3C grammar (N-Quads 1.1 + the N-Triples-star `<< >>`
production).

Writer side (model of the code): `quotedString` is defined over the escape table that
`tools/extractors/c03.py` regenerates from the `match cutchar` arms of `quoted_string`
(the loop-shaped body of /repo commit 61cb60c)
(`Gen/NtEscapes.lean`), `writeTerm/writeTriple/writeQuad/writeDoc` follow `write_term`,
`write_triple` and the closures of `NtSerializer::serialize_triples` /
`NqSerializer::serialize_quads` call by call.

`quoted_string` works on UTF-8 *bytes*; the model works on code points.  All bytes it tests for
are < 0x80 and no byte of a multi-byte UTF-8 sequence is < 0x80, so the byte scan and the scan
over scalar values cut at the same places (modelling assumption, exercised by the byte-exact
differential on non-ASCII text).

Reader side (oracle): nothing here is derived from Rio.  Grammar used:

  nquadsDoc  ::= statement? (EOL statement)* EOL?          EOL ::= [#xD#xA]+
  statement  ::= subject predicate object graphLabel? '.'
  subject    ::= IRIREF | BLANK_NODE_LABEL | quotedTriple
  predicate  ::= IRIREF
  object     ::= IRIREF | BLANK_NODE_LABEL | literal | quotedTriple
  graphLabel ::= IRIREF | BLANK_NODE_LABEL
  quotedTriple ::= '<<' subject predicate object '>>'
  literal    ::= STRING_LITERAL_QUOTE ('^^' IRIREF | LANGTAG)?
  LANGTAG    ::= '@' [a-zA-Z]+ ('-' [a-zA-Z0-9]+)*
  IRIREF     ::= '<' ([^#x00-#x20<>"{}|^`\] | UCHAR)* '>'
  STRING_LITERAL_QUOTE ::= '"' ([^#x22#x5C#xA#xD] | ECHAR | UCHAR)* '"'
  BLANK_NODE_LABEL ::= '_:' (PN_CHARS_U | [0-9]) ((PN_CHARS | '.')* PN_CHARS)?
  UCHAR ::= '\u' HEX HEX HEX HEX | '\U' HEX HEX HEX HEX HEX HEX HEX HEX
  ECHAR ::= '\' [tbnrf"'\]
  PN_CHARS_U ::= PN_CHARS_BASE | '_'      (the ':' of the 1.1 text is an acknowledged erratum,
                                           removed in RDF 1.2 N-Triples; Turtle never had it)
  "White space (tab U+0009 or space U+0020) is used to separate two terminals which would
   otherwise be (mis-)recognized as one terminal" — i.e. optional between any two terminals;
  comments: '#' to end of line, after a statement or on a line of their own; terminals are
  recognised by longest match (BLANK_NODE_LABEL may contain but not end with '.').
-/
import SophiaModel.Basic.Term
import SophiaModel.Regex.Comb
import SophiaModel.Gen.Regexes
import SophiaModel.Gen.NtEscapes
import SophiaModel.Gen.NtWriter

namespace SophiaModel.NT
open SophiaModel

def xsdString : Str := "http://www.w3.org/2001/XMLSchema#string".toList

/-! ## Writer (model of the implementation) -/

/-- the cut test of `quoted_string`:
`chr <= b'\\' && (chr == b'\n' || chr == b'\r' || chr == b'\\' || chr == b'"')` -/
def isCut (c : Char) : Bool := decide (c.toNat ≤ Gen.ntCutBound) && Gen.ntCutChars.contains c

/-- the `match cutchar` arms; `none` = `unreachable!()` (a panic) -/
def escArm (c : Char) : Option Str := Gen.ntEscapeArms.lookup c

/-- what `quoted_string` writes for one scalar value -/
def escChar (c : Char) : Str := if isCut c then (escArm c).getD [] else [c]

/-- `quoted_string`: every byte is copied except the cut bytes, which are replaced by their arm -/
def quotedString (s : Str) : Str := s.flatMap escChar

/-- `quoted_string` reaches `unreachable!()` on this text -/
def quotedPanics (s : Str) : Bool := s.any (fun c => isCut c && (escArm c).isNone)

/-- the `loop` of `quoted_string`, effect by effect and in the source's order.  `w` is what has
been written so far, `txt` the mutable slice; one iteration =
  1. search the first cut byte (`cut`, `cutchar`);
  2. `w.write_all(&txt[..cut])`                       — the prefix;
  3. `if cut < txt.len() { match cutchar { arms } }`  — the escape (`none` = `unreachable!()`);
  4. `if cut + 1 >= txt.len() { return Ok(()) }`      — the end test, AFTER the escape was written;
  5. `txt = &txt[cut + 1..]`.
Fuel = remaining length + 1 (every iteration but the last consumes at least the cut byte). -/
def quotedLoop : Nat → Str → Str → Option Str
  | 0, _, _ => none
  | fuel + 1, w, txt =>
    let pre := txt.takeWhile (fun c => !isCut c)            -- txt[..cut]
    let rest := txt.dropWhile (fun c => !isCut c)           -- txt[cut..]
    let w1 := w ++ pre                                      -- (2)
    let w2? : Option Str :=                                 -- (3)
      match rest with
      | [] => some w1                                       --   cut = txt.len(): no escape
      | cutchar :: _ => (escArm cutchar).map (fun e => w1 ++ e)
    match w2? with
    | none => none                                          --   `_ => unreachable!()`
    | some w2 =>
      if rest.length ≤ 1 then some w2                       -- (4) cut + 1 >= txt.len()
      else quotedLoop fuel w2 (rest.drop 1)                 -- (5)

/-- `quoted_string(w, txt)` on an empty sink -/
def quotedStringRs (txt : Str) : Option Str := quotedLoop (txt.length + 1) [] txt

/-! ### the same loop on UTF-8 bytes

`quoted_string` receives `lexical_form().as_bytes()`: it scans and cuts *bytes*.  `utf8` is Lean's own
encoder (`String.utf8EncodeChar`, the one `String.toUTF8` is specified by); the table entries
`b'..'` are bytes.  `SophiaProofs.C03.quoted_bytes_eq` proves that the byte loop applied to the
encoding of a text yields the encoding of `quotedString` of the text — cutting at a byte never
splits a multi-byte sequence and never mistakes a continuation byte for a cut byte. -/

abbrev Bytes := List UInt8

def utf8 (s : Str) : Bytes := s.flatMap String.utf8EncodeChar

/-- the byte a table entry `b'x'` denotes -/
def byteOf (c : Char) : UInt8 := UInt8.ofNat c.toNat

def cutBytes : Bytes := Gen.ntCutChars.map byteOf

def armBytes : List (UInt8 × Bytes) := Gen.ntEscapeArms.map (fun a => (byteOf a.1, a.2.map byteOf))

/-- `chr <= b'\\' && (chr == b'\n' || …)` on a byte -/
def isCutB (b : UInt8) : Bool := decide (b.toNat ≤ Gen.ntCutBound) && cutBytes.contains b

def escArmB (b : UInt8) : Option Bytes := armBytes.lookup b

/-- `quotedLoop` with `txt: &[u8]` -/
def quotedLoopB : Nat → Bytes → Bytes → Option Bytes
  | 0, _, _ => none
  | fuel + 1, w, txt =>
    let pre := txt.takeWhile (fun c => !isCutB c)
    let rest := txt.dropWhile (fun c => !isCutB c)
    let w1 := w ++ pre
    let w2? : Option Bytes :=
      match rest with
      | [] => some w1
      | cutchar :: _ => (escArmB cutchar).map (fun e => w1 ++ e)
    match w2? with
    | none => none
    | some w2 =>
      if rest.length ≤ 1 then some w2
      else quotedLoopB fuel w2 (rest.drop 1)

/-- `quoted_string(w, txt)` on the bytes of a text, empty sink -/
def quotedBytesRs (txt : Bytes) : Option Bytes := quotedLoopB (txt.length + 1) [] txt

/-- `write_term` -/
def writeTerm : Term → Str
  | .iri s => '<' :: s ++ ['>']
  | .bnode l => '_' :: ':' :: l
  | .lit lex dt =>
    '"' :: quotedString lex ++
      (if xsdString ≠ dt then '"' :: '^' :: '^' :: '<' :: dt ++ ['>'] else ['"'])
  | .lang lex tag => '"' :: quotedString lex ++ '"' :: '@' :: tag
  | .triple s p o => '<' :: '<' :: (writeTerm s ++ ' ' :: writeTerm p ++ ' ' :: writeTerm o) ++ ['>', '>']
  | .var v => '?' :: v

/-- `write_triple` -/
def writeTriple (s p o : Term) : Str := writeTerm s ++ ' ' :: writeTerm p ++ ' ' :: writeTerm o

/-- the per-quad closure of `NqSerializer::serialize_quads` (with `g = none` also the per-triple
closure of `NtSerializer::serialize_triples`) -/
def writeQuad (q : Quad) : Str :=
  writeTriple q.s q.p q.o ++
    (match q.g with
     | none => ['.', '\n']
     | some t => ' ' :: writeTerm t ++ ['.', '\n'])

def writeDoc (d : List Quad) : Str := d.flatMap writeQuad

/-! ### the writer as the source spells it: interpreter of the generated op tables

`tools/extractors/c03.py` (`ntwriter`) parses `write_term`, `write_triple`, the per-statement closures
of `serialize_triples` / `serialize_quads` into sequences of writes (`Gen.NtOp`, file
`Gen/NtWriter.lean`), the literal arm's decision tree and the `NsTerm` the datatype is compared with.
`writeTermT … writeDocT` run those tables; the driver prints *their* output.  That they coincide with
the hand-written `writeTerm … writeDoc` above (about which the round-trip theorems are stated) is
proved in `SophiaProofs.C03.writeTermT_eq`, `writeQuadT_eq`, `writeDocT_eq`. -/

/-- a sequence of writes; `f` says what the non-constant ones write in the current context (a
component the context does not have writes nothing — in the source it would not compile) -/
def interp (f : Gen.NtOp → Str) (ops : List Gen.NtOp) : Str :=
  ops.flatMap fun
    | .raw b => b
    | op => f op

/-- `NsTerm::eq` against an IRI: `iri.starts_with(ns) && &iri[ns.len()..] == suffix`
(api/src/ns/_term.rs; that the source still has this shape is `Gen.nsTermEqShape`) -/
def nsTermEq (ns sfx iri : Str) : Bool := ns.isPrefixOf iri && iri.drop ns.length == sfx

def writeTermT : Term → Str
  | .iri s => interp (fun | .iri => s | _ => []) Gen.ntArmIri
  | .bnode l => interp (fun | .bnode => l | _ => []) Gen.ntArmBnode
  | .var v => interp (fun | .var => v | _ => []) Gen.ntArmVar
  | .lit lex dt =>
    let f : Gen.NtOp → Str := fun | .lex => quotedString lex | .dt => dt | _ => []
    interp f Gen.ntLitPre ++
      (if !nsTermEq Gen.ntElideNs Gen.ntElideSuffix dt then interp f Gen.ntLitTyped else interp f Gen.ntLitPlain)
  | .lang lex tag =>
    let f : Gen.NtOp → Str := fun | .lex => quotedString lex | .tag => tag | _ => []
    interp f Gen.ntLitPre ++ interp f Gen.ntLitLang
  | .triple s p o =>
    let ws := writeTermT s
    let wp := writeTermT p
    let wo := writeTermT o
    let tr := interp (fun | .sub .s => ws | .sub .p => wp | .sub .o => wo | _ => []) Gen.ntTriple
    interp (fun | .triple => tr | _ => []) Gen.ntArmTriple

def writeTripleT (s p o : Term) : Str :=
  interp (fun | .sub .s => writeTermT s | .sub .p => writeTermT p | .sub .o => writeTermT o | _ => []) Gen.ntTriple

/-- the per-statement closure: `nq = true` of `NqSerializer::serialize_quads`, `false` of
`NtSerializer::serialize_triples` (which never sees a graph name) -/
def writeQuadT (nq : Bool) (q : Quad) : Str :=
  let f : Gen.NtOp → Str := fun
    | .triple => writeTripleT q.s q.p q.o
    | .sub .g => (match q.g with | some g => writeTermT g | none => [])
    | _ => []
  if nq then
    interp f Gen.nqPre ++ (match q.g with | none => interp f Gen.nqNone | some _ => interp f Gen.nqSome)
  else interp f Gen.ntStatement

def writeDocT (nq : Bool) (d : List Quad) : Str := d.flatMap (writeQuadT nq)

/-! ### the io error path

Every write of `write_term` / `write_triple` / `quoted_string` / the closures is a `write_all(..)?`
(the extractor refuses a fallible call that is not followed by `?`): the first failing one ends
the serialisation with `Err`.  A sink that takes `room` bytes in total lets `write_all(chunk)` succeed
iff the chunk fits (an empty chunk always does).  `SophiaProofs.C03.sink_ok_iff`: for ANY split of
the output into chunks the run succeeds iff the whole output fits — so the driver may use one chunk. -/

/-- remaining room after the writes, `none` = `Err` -/
def sinkRun : Nat → List Bytes → Option Nat
  | room, [] => some room
  | room, c :: cs => if c.length ≤ room then sinkRun (room - c.length) cs else none

/-- some literal in the term makes `quoted_string` panic -/
def termPanics : Term → Bool
  | .lit lex _ => quotedPanics lex
  | .lang lex _ => quotedPanics lex
  | .triple s p o => termPanics s || termPanics p || termPanics o
  | _ => false

def quadPanics (q : Quad) : Bool :=
  termPanics q.s || termPanics q.p || termPanics q.o || (match q.g with | none => false | some g => termPanics g)

/-! ## Reader (oracle, from the grammar) -/

def isWs (c : Char) : Bool := c = ' ' || c = '\t'
def skipWs (s : Str) : Str := s.dropWhile isWs

def hexVal (c : Char) : Option Nat :=
  if '0' ≤ c ∧ c ≤ '9' then some (c.toNat - 48)
  else if 'a' ≤ c ∧ c ≤ 'f' then some (c.toNat - 87)
  else if 'A' ≤ c ∧ c ≤ 'F' then some (c.toNat - 55)
  else none

def hexNum : Str → Option Nat
  | [] => some 0
  | ds => ds.foldl (fun acc c => acc.bind fun a => (hexVal c).map fun v => a * 16 + v) (some 0)

/-- UCHAR value: the hex digits denote a Unicode scalar value (not a surrogate, ≤ 10FFFF) -/
def ucharOf (ds : Str) : Option Char :=
  match hexNum ds with
  | some n => if n.isValidChar then some (Char.ofNat n) else none
  | none => none

/-- `[^#x00-#x20<>"{}|^`\]` as ranges: everything but U+0000–U+0020, `"` 22, `<` 3C, `>` 3E,
`\` 5C, `^` 5E, `` ` `` 60, `{` 7B, `|` 7C, `}` 7D -/
def iriRawR : List (Nat × Nat) :=
  [(0x21, 0x21), (0x23, 0x3B), (0x3D, 0x3D), (0x3F, 0x5B), (0x5D, 0x5D), (0x5F, 0x5F), (0x61, 0x7A),
   (0x7E, 0x10FFFF)]

def iriCharOk (c : Char) : Bool := Re.inCls iriRawR c.toNat

def pushFst (c : Char) (r : Option (Str × Str)) : Option (Str × Str) :=
  r.map fun p => (c :: p.1, p.2)

/-- IRIREF after its `<`, up to and including the closing `>` -/
def readIriBody : Str → Option (Str × Str)
  | [] => none
  | c :: r =>
    if c = '>' then some ([], r)
    else if c = '\\' then
      match r with
      | 'u' :: h1 :: h2 :: h3 :: h4 :: r' =>
        match ucharOf [h1, h2, h3, h4] with
        | some x => pushFst x (readIriBody r')
        | none => none
      | 'U' :: h1 :: h2 :: h3 :: h4 :: h5 :: h6 :: h7 :: h8 :: r' =>
        match ucharOf [h1, h2, h3, h4, h5, h6, h7, h8] with
        | some x => pushFst x (readIriBody r')
        | none => none
      | _ => none
    else if iriCharOk c then pushFst c (readIriBody r)
    else none

/-- ECHAR -/
def echar (c : Char) : Option Char :=
  if c = 't' then some '\t'
  else if c = 'b' then some (Char.ofNat 8)
  else if c = 'n' then some '\n'
  else if c = 'r' then some '\r'
  else if c = 'f' then some (Char.ofNat 12)
  else if c = '"' then some '"'
  else if c = '\'' then some '\''
  else if c = '\\' then some '\\'
  else none

/-- STRING_LITERAL_QUOTE after its opening `"`, up to and including the closing `"` -/
def readStrBody : Str → Option (Str × Str)
  | [] => none
  | c :: r =>
    if c = '"' then some ([], r)
    else if c = '\\' then
      match r with
      | 'u' :: h1 :: h2 :: h3 :: h4 :: r' =>
        match ucharOf [h1, h2, h3, h4] with
        | some x => pushFst x (readStrBody r')
        | none => none
      | 'U' :: h1 :: h2 :: h3 :: h4 :: h5 :: h6 :: h7 :: h8 :: r' =>
        match ucharOf [h1, h2, h3, h4, h5, h6, h7, h8] with
        | some x => pushFst x (readStrBody r')
        | none => none
      | e :: r' =>
        match echar e with
        | some x => pushFst x (readStrBody r')
        | none => none
      | [] => none
    else if c = '\n' || c = '\r' then none
    else pushFst c (readStrBody r)

/-- the inverse of `quotedString` the property asks for: the text between the quotes of a
STRING_LITERAL_QUOTE, decoded; `none` if it is not such a text -/
def unescape (s : Str) : Option Str :=
  match readStrBody (s ++ ['"']) with
  | some (x, []) => some x
  | _ => none

def pnCharsBaseR : List (Nat × Nat) :=
  [(0x41, 0x5A), (0x61, 0x7A), (0xC0, 0xD6), (0xD8, 0xF6), (0xF8, 0x2FF), (0x370, 0x37D), (0x37F, 0x1FFF),
   (0x200C, 0x200D), (0x2070, 0x218F), (0x2C00, 0x2FEF), (0x3001, 0xD7FF), (0xF900, 0xFDCF),
   (0xFDF0, 0xFFFD), (0x10000, 0xEFFFF)]
/-- PN_CHARS_U -/
def pnCharsUR : List (Nat × Nat) := (0x5F, 0x5F) :: pnCharsBaseR
/-- PN_CHARS_U | [0-9] -/
def labelFirstR : List (Nat × Nat) := (0x30, 0x39) :: pnCharsUR
/-- PN_CHARS -/
def pnCharsR : List (Nat × Nat) :=
  (0x2D, 0x2D) :: (0x30, 0x39) :: (0xB7, 0xB7) :: (0x300, 0x36F) :: (0x203F, 0x2040) :: pnCharsUR

def isLabelFirst (c : Char) : Bool := Re.inCls labelFirstR c.toNat
def isPnChars (c : Char) : Bool := Re.inCls pnCharsR c.toNat
def isLabelCh (c : Char) : Bool := isPnChars c || c = '.'

/-- remove trailing dots -/
def stripDots (run : Str) : Str := (run.reverse.dropWhile (fun c => c = '.')).reverse

/-- BLANK_NODE_LABEL after `_:`, longest match: the maximal run of `PN_CHARS | '.'` minus its
trailing dots, which are given back to the input -/
def readLabel : Str → Option (Str × Str)
  | [] => none
  | c :: s =>
    if isLabelFirst c then
      let run := s.takeWhile isLabelCh
      let body := stripDots run
      some (c :: body, run.drop body.length ++ s.dropWhile isLabelCh)
    else none

def alphaR : List (Nat × Nat) := [(0x41, 0x5A), (0x61, 0x7A)]
def digitR : List (Nat × Nat) := [(0x30, 0x39)]
def alnumR : List (Nat × Nat) := digitR ++ alphaR
/-- `[a-zA-Z]` -/
def isAlpha (c : Char) : Bool := Re.inCls alphaR c.toNat
/-- `[a-zA-Z0-9]` -/
def isAlnum (c : Char) : Bool := Re.inCls alnumR c.toNat
def isTagCh (c : Char) : Bool := isAlnum c || c = '-'

/-- split at every `-` -/
def splitDash : Str → List Str
  | [] => [[]]
  | c :: s =>
    if c = '-' then [] :: splitDash s
    else match splitDash s with
      | h :: t => (c :: h) :: t
      | [] => [[c]]

def joinDash : List Str → Str
  | [] => []
  | [a] => a
  | a :: b :: t => a ++ '-' :: joinDash (b :: t)

def subtagOk (s : Str) : Bool := !s.isEmpty && s.all isAlnum

/-- LANGTAG after `@`, longest match of `[a-zA-Z]+ ('-' [a-zA-Z0-9]+)*` -/
def readLangtag (s : Str) : Option (Str × Str) :=
  let run := s.takeWhile isTagCh
  match splitDash run with
  | [] => none
  | a :: subs =>
    let a' := a.takeWhile isAlpha
    if a'.isEmpty then none
    else
      let tag := if a'.length < a.length then a' else joinDash (a :: subs.takeWhile subtagOk)
      some (tag, run.drop tag.length ++ s.dropWhile isTagCh)

/-- what follows the closing `"`: `@`LANGTAG, `^^` IRIREF, or nothing (plain literal =
xsd:string); white space may separate the terminals -/
def readAnnot (lex r : Str) : Option (Term × Str) :=
  let r' := skipWs r
  if r'.head? = some '@' then
    (readLangtag r'.tail).map fun x => (.lang lex x.1, x.2)
  else if r'.head? = some '^' ∧ r'.tail.head? = some '^' then
    let r2 := skipWs r'.tail.tail
    if r2.head? = some '<' then (readIriBody r2.tail).map fun x => (.lit lex x.1, x.2) else none
  else some (.lit lex xsdString, r)

/-- literal after the opening `"` -/
def readLiteral (s : Str) : Option (Term × Str) :=
  (readStrBody s).bind fun x => readAnnot x.1 x.2

/-- the `>>` closing a quoted triple -/
def closeQuoted (a b c : Term) (r : Str) : Option (Term × Str) :=
  if r.head? = some '>' ∧ r.tail.head? = some '>' then some (.triple a b c, r.tail.tail) else none

/-- one term of any kind (positions are checked afterwards by `posOk`); fuel bounds the nesting
of quoted triples -/
def readTerm : Nat → Str → Option (Term × Str)
  | 0, _ => none
  | n + 1, s =>
    match s with
    | [] => none
    | c :: r =>
      if c = '<' then
        if r.head? = some '<' then
          (readTerm n (skipWs r.tail)).bind fun x1 =>
          (readTerm n (skipWs x1.2)).bind fun x2 =>
          (readTerm n (skipWs x2.2)).bind fun x3 =>
          closeQuoted x1.1 x2.1 x3.1 (skipWs x3.2)
        else (readIriBody r).map fun x => (.iri x.1, x.2)
      else if c = '_' then
        if r.head? = some ':' then (readLabel r.tail).map fun x => (.bnode x.1, x.2) else none
      else if c = '"' then readLiteral r
      else none

inductive Pos | subj | pred | obj | graph
  deriving DecidableEq, Repr

/-- which kinds the grammar admits in which position (strict RDF-star) -/
def posOk : Pos → Term → Bool
  | .subj, .iri _ => true
  | .subj, .bnode _ => true
  | .pred, .iri _ => true
  | .obj, .iri _ => true
  | .obj, .bnode _ => true
  | .obj, .lit _ _ => true
  | .obj, .lang _ _ => true
  | .graph, .iri _ => true
  | .graph, .bnode _ => true
  | .subj, .triple s p o => posOk .subj s && posOk .pred p && posOk .obj o
  | .obj, .triple s p o => posOk .subj s && posOk .pred p && posOk .obj o
  | _, _ => false

def strictQuad (q : Quad) : Bool :=
  posOk .subj q.s && posOk .pred q.p && posOk .obj q.o &&
    (match q.g with | none => true | some g => posOk .graph g)

/-- what may follow the final '.': white space, then nothing or a comment -/
def lineEndOk (r : Str) : Bool :=
  let r' := skipWs r
  r'.isEmpty || r'.head? = some '#'

/-- the final `.` of a statement and the position check -/
def finish (q : Quad) (r : Str) : Option (Option Quad) :=
  if r.head? = some '.' ∧ lineEndOk r.tail = true ∧ strictQuad q = true then some (some q) else none

/-- one line (without its EOL). `some none`: blank or comment line. `nq = false`: N-Triples
(no graph label). -/
def readLine (nq : Bool) (line : Str) : Option (Option Quad) :=
  let s := skipWs line
  if s.isEmpty ∨ s.head? = some '#' then some none
  else
    let fuel := s.length
    (readTerm fuel s).bind fun x1 =>
    (readTerm fuel (skipWs x1.2)).bind fun x2 =>
    (readTerm fuel (skipWs x2.2)).bind fun x3 =>
    let r4 := skipWs x3.2
    if r4.head? = some '.' then finish ⟨x1.1, x2.1, x3.1, none⟩ r4
    else if nq then
      (readTerm fuel r4).bind fun x4 => finish ⟨x1.1, x2.1, x3.1, some x4.1⟩ (skipWs x4.2)
    else none

/-! ### reference escaper for the pending pure-ASCII mode

`NtConfig::set_ascii(true)` is `todo!()` in the source.  `quotedAscii` is the obvious specification
(ASCII as `quoted_string`, everything else as UCHAR, upper-case hex); `SophiaProofs.C03` proves that
the grammar reader decodes `\\uXXXX` / `\\UXXXXXXXX` for every scalar value (in literals and IRIs) and
hence reads `quotedAscii s` back as `s`: the oracle the `ascii` requests will be judged by is sound. -/

/-- upper-case hex digit -/
def hexDigitU (n : Nat) : Char := if n < 10 then Char.ofNat (48 + n) else Char.ofNat (55 + n)

def hex4 (n : Nat) : Str := [hexDigitU (n / 4096 % 16), hexDigitU (n / 256 % 16), hexDigitU (n / 16 % 16), hexDigitU (n % 16)]

def hex8 (n : Nat) : Str := hex4 (n / 65536) ++ hex4 (n % 65536)

def escAscii (c : Char) : Str :=
  if c.toNat < 128 then escChar c
  else if c.toNat < 65536 then '\\' :: 'u' :: hex4 c.toNat
  else '\\' :: 'U' :: hex8 c.toNat

def quotedAscii (s : Str) : Str := s.flatMap escAscii

/-! ## Well-formedness under which the round trip is proved (decidable, stated directly on
character classes; `SophiaProofs.Props.C03` relates it to the toolkit's validators) -/

/-- every character may stand raw in an IRIREF (true of every RFC 3987 IRI) -/
def iriOk (s : Str) : Bool := s.all iriCharOk

/-- BLANK_NODE_LABEL without the `_:` -/
def labelOk : Str → Bool
  | [] => false
  | c :: body => isLabelFirst c && body.all isLabelCh && (body.getLast? != some '.')

/-- LANGTAG without the `@`: alphabetic first subtag, then non-empty alphanumeric subtags -/
def tagOk (t : Str) : Bool :=
  match splitDash t with
  | [] => false
  | a :: subs => !a.isEmpty && a.all isAlpha && subs.all subtagOk

def termOk : Term → Bool
  | .iri s => iriOk s
  | .bnode l => labelOk l
  | .lit _ dt => iriOk dt
  | .lang _ tag => tagOk tag
  | .triple s p o => termOk s && termOk p && termOk o
  | .var _ => false

/-- well-formed strict RDF-star quad -/
def quadOk (q : Quad) : Bool :=
  termOk q.s && termOk q.p && termOk q.o && (match q.g with | none => true | some g => termOk g) && strictQuad q

/-- first character after a term in the writer's output: end, a space, `>` (of `>>`), or the
final `.` (not followed by a label character) -/
def delim0 (r : Str) : Bool :=
  match r with
  | [] => true
  | c :: t => c = ' ' || c = '>' || (c = '.' && match t with | [] => true | d :: _ => !isLabelCh d)

/-- the next terminal is not a literal annotation (`@tag`, `^^`) -/
def noAnnot (r : Str) : Bool :=
  match skipWs r with
  | [] => true
  | c :: _ => c != '@' && c != '^'

/-- what may follow a term for the reader to stop exactly there -/
def delim (r : Str) : Bool := delim0 r && noAnnot r


/-! ## The grammar's terminals as regular expressions (for the side-language theorems) and
the toolkit's validators (generated regexes) -/

namespace G
open Re

def alpha : Re := .cls alphaR
def digit : Re := .cls digitR
def alnum : Re := .cls alnumR
def dash : Re := chr '-'

/-- LANGTAG without `@` -/
def LANGTAG : Re := .cat (plus alpha) (.star (.cat dash (plus alnum)))

/-- BLANK_NODE_LABEL without `_:` -/
def BLANK_NODE_LABEL : Re :=
  .cat (.cls labelFirstR) (opt (.cat (.star (.cls ((0x2E, 0x2E) :: pnCharsR))) (.cls pnCharsR)))

/-- the raw (unescaped) alternative of IRIREF's body, repeated -/
def IRIREF_RAW : Re := .star (.cls iriRawR)

/-- case-insensitive ASCII literal -/
def ci (s : String) : Re :=
  s.toList.foldr (fun c r =>
    let n := c.toNat
    let cl : List (Nat × Nat) :=
      if 0x61 ≤ n ∧ n ≤ 0x7A then [(n - 32, n - 32), (n, n)]
      else if 0x41 ≤ n ∧ n ≤ 0x5A then [(n, n), (n + 32, n + 32)]
      else [(n, n)]
    .cat (.cls cl) r) .eps

/-- RFC 5646 (BCP 47) section 2.1 `Language-Tag`, well-formedness -/
def bcpExtlang : Re := .cat (times 3 alpha) (upto 2 (.cat dash (times 3 alpha)))
def bcpLanguage : Re :=
  alts [.cat (between 2 3 alpha) (opt (.cat dash bcpExtlang)), times 4 alpha, between 5 8 alpha]
def bcpScript : Re := times 4 alpha
def bcpRegion : Re := .alt (times 2 alpha) (times 3 digit)
def bcpVariant : Re := .alt (between 5 8 alnum) (.cat digit (times 3 alnum))
def bcpSingleton : Re := .cls [(0x30, 0x39), (0x41, 0x57), (0x59, 0x5A), (0x61, 0x77), (0x79, 0x7A)]
def bcpExtension : Re := .cat bcpSingleton (plus (.cat dash (between 2 8 alnum)))
def bcpPrivateuse : Re := .cat (.cls [(0x58, 0x58), (0x78, 0x78)]) (plus (.cat dash (between 1 8 alnum)))
def bcpLangtag : Re :=
  seqs [bcpLanguage, opt (.cat dash bcpScript), opt (.cat dash bcpRegion), .star (.cat dash bcpVariant),
        .star (.cat dash bcpExtension), opt (.cat dash bcpPrivateuse)]
/-- the irregular grandfathered tags (the regular ones already match `langtag`) -/
def bcpIrregular : Re :=
  alts (["en-GB-oed", "i-ami", "i-bnn", "i-default", "i-enochian", "i-hak", "i-klingon", "i-lux", "i-mingo",
         "i-navajo", "i-pwn", "i-tao", "i-tay", "i-tsu", "sgn-BE-FR", "sgn-BE-NL", "sgn-CH-DE"].map ci)
def BCP47 : Re := alts [bcpLangtag, bcpPrivateuse, bcpIrregular]

end G

def natStr (s : Str) : List Nat := s.map Char.toNat

/-- the toolkit's validators: `Iri::new`, `BnodeId::new`, `LanguageTag::new` (generated regexes);
a datatype is an `Iri` -/
def termValid : Term → Bool
  | .iri s => Re.matchB Gen.IRI_REGEX (natStr s)
  | .bnode l => Re.matchB Gen.BNODE_ID (natStr l)
  | .lit _ dt => Re.matchB Gen.IRI_REGEX (natStr dt)
  | .lang _ tag => Re.matchB Gen.LANG_TAG (natStr tag)
  | .triple s p o => termValid s && termValid p && termValid o
  | .var _ => false

/-- every language tag of the term is a well-formed BCP 47 tag -/
def termBcp : Term → Bool
  | .lang _ tag => Re.matchB G.BCP47 (natStr tag)
  | .triple s p o => termBcp s && termBcp p && termBcp o
  | _ => true

def quadAll (f : Term → Bool) (q : Quad) : Bool :=
  f q.s && f q.p && f q.o && (match q.g with | none => true | some g => f g)

def isEol (c : Char) : Bool := c = '\n' || c = '\r'

/-- the document, line by line (EOL ::= [#xD#xA]+ : every CR or LF ends a line, empty lines
are allowed); fuel ≥ length + 1 -/
def readDocAux (nq : Bool) : Nat → Str → Option (List Quad)
  | 0, _ => none
  | fuel + 1, s =>
    if s.isEmpty then some []
    else
      let line := s.takeWhile (fun c => !isEol c)
      let rest := (s.dropWhile (fun c => !isEol c)).drop 1
      match readLine nq line with
      | none => none
      | some q? =>
        match readDocAux nq fuel rest with
        | none => none
        | some qs => some (q?.toList ++ qs)

def readDoc (nq : Bool) (s : Str) : Option (List Quad) := readDocAux nq (s.length + 1) s

end SophiaModel.NT
