/-
RDFC-1.0 *as implemented* in `c14n/src/rdfc10.rs` (+ `_permutations.rs`, `_c14n_term.rs`), step by
step.  Parameters: `H : Str → Str` = lowercase hex digest of the UTF-8 bytes (the drivers plug in
SHA-256 / SHA-384 from `Model/Sha2.lean`; `[u8; N]: Ord` = order of the fixed-length lowercase hex
strings), `tooDeep depth n` = `depth as f32 > depth_factor * n as f32`, `permLimit`.

Collections: `BTreeMap<K, V>` = association list kept sorted by key (`SMap`, keys `Str` in
code-point order = byte order of UTF-8); `Vec` = `List`; `unwrap()`s that the code relies on are
explicit `panic` outcomes (one of them is reachable: a non-IRI, non-blank predicate, see C06).
`sort_unstable*` = `List.mergeSort` (for the final sort and the first-degree sort, elements that
compare equal render identically; for step 5.3 the driver reports the id map only when the
standard library's small-slice insertion sort (≤ 20 elements, stable in effect) applies).
-/
import SophiaModel.Model.Cnq
import SophiaModel.Gen.Rdfc10Variant

namespace SophiaModel.Rdfc10
open SophiaModel

/-! ### strings -/

/-- `str::cmp` (bytewise on UTF-8 = code-point order, DESIGN §3.1) -/
def cmpStr : Str → Str → Ordering
  | [], [] => .eq
  | [], _ :: _ => .lt
  | _ :: _, [] => .gt
  | a :: as, b :: bs =>
    if a.toNat < b.toNat then .lt else if b.toNat < a.toNat then .gt else cmpStr as bs

def strLt (a b : Str) : Bool := cmpStr a b == .lt
def strLe (a b : Str) : Bool := cmpStr a b != .gt

/-- `format!("{}", n)` -/
def decimal (n : Nat) : Str := (Nat.repr n).toList

/-! ### `BTreeMap<Str, α>` -/

abbrev SMap (α : Type) := List (Str × α)

namespace SMap
variable {α : Type}

def get (m : SMap α) (k : Str) : Option α := List.lookup k m

/-- `entry(k)` followed by an update of the (possibly fresh) slot: `f none` for a vacant entry -/
def upsert : SMap α → Str → (Option α → α) → SMap α
  | [], k, f => [(k, f none)]
  | (k', v) :: rest, k, f =>
    match cmpStr k k' with
    | .lt => (k, f none) :: (k', v) :: rest
    | .eq => (k', f (some v)) :: rest
    | .gt => (k', v) :: upsert rest k f

def keys (m : SMap α) : List Str := m.map (·.1)
end SMap

/-- `entry(k).or_default().push(x)` -/
def pushAt {β : Type} (x : β) : Option (List β) → List β
  | none => [x]
  | some l => l ++ [x]

/-! ### errors -/

/-- outcomes of `hash_n_degree_quads` other than a result -/
inductive HErr where
  | depth      -- ToxicGraph("too many recursions …")
  | perms      -- ToxicGraph("Too many permutations …")
  | panic      -- an `unwrap()` on `None`
  | fuel       -- model artefact: recursion fuel exhausted (never reported by a correct run)
  deriving Repr, DecidableEq, Inhabited

inductive Err where
  | unsupported    -- C14nError::Unsupported
  | hnd (e : HErr) -- raised inside step 5
  | panic          -- `issued.get(..).unwrap()` in step 6
  deriving Repr, DecidableEq, Inhabited

/-! ### identifier issuer -/

structure Issuer where
  pfx : Str
  issued : SMap Str          -- C14nIdMap
  order : List Str           -- issued_order
  deriving Repr, DecidableEq, Inhabited

namespace Issuer
def new (pfx : Str) : Issuer := ⟨pfx, [], []⟩

def get (i : Issuer) (b : Str) : Option Str := i.issued.get b

/-- `BnodeIssuer::issue`: ((identifier, newly created?), issuer afterwards) -/
def issue (i : Issuer) (b : Str) : (Str × Bool) × Issuer :=
  match i.issued.get b with
  | some id => ((id, false), i)
  | none =>
    let id := i.pfx ++ decimal i.order.length
    ((id, true), { i with issued := i.issued.upsert b (fun _ => id), order := i.order ++ [b] })

def issue' (i : Issuer) (b : Str) : Issuer := (i.issue b).2
end Issuer

/-! ### terms and quads -/

def isBnode : Term → Bool | .bnode _ => true | _ => false
def isTriple : Term → Bool | .triple _ _ _ => true | _ => false
def isVar : Term → Bool | .var _ => true | _ => false
def isIri : Term → Bool | .iri _ => true | _ => false

/-- `iter_spog(quad.spog())` zipped with the position names -/
def components (q : Quad) : List (Term × Str) :=
  [(q.s, ['s']), (q.p, ['p']), (q.o, ['o'])] ++
    (match q.g with | some g => [(g, ['g'])] | none => [])

/-! ### Step 2 -/

def step2Comp (q : Quad) (m : SMap (List Quad)) (c : Term × Str) : Except Err (SMap (List Quad)) :=
  if isTriple c.1 || isVar c.1 then .error .unsupported
  else match c.1 with
    | .bnode b => .ok (m.upsert b (pushAt q))
    | _ => .ok m

/-- the predicate tests at the head of the step-2 loop, following the source through
`Gen.predicateMustBeIri` (tools/extractors/c06.py): originally only blank node predicates were
rejected (flag `false`); since /repo commit ae95823 every non-IRI predicate is (flag `true`) -/
def predicateRejected (p : Term) : Bool :=
  isBnode p || (Gen.predicateMustBeIri && !isIri p)

def step2Quad (m : SMap (List Quad)) (q : Quad) : Except Err (SMap (List Quad)) :=
  if predicateRejected q.p then .error .unsupported
  else (components q).foldlM (step2Comp q) m

/-- blank node label → quads mentioning it (once per *occurrence*, as the code pushes) -/
def step2 (quads : List Quad) : Except Err (SMap (List Quad)) := quads.foldlM step2Quad []

/-! ### Hash First Degree Quads -/

/-- `nq_for_hash` -/
def nqForHash (ref : Str) : Term → Str
  | .bnode b => if b = ref then "_:a ".toList else "_:z ".toList
  | t => Cnq.nq t

def lineForHash (ref : Str) (q : Quad) : Str :=
  nqForHash ref q.s ++ nqForHash ref q.p ++ nqForHash ref q.o ++
    (match q.g with | some g => nqForHash ref g | none => []) ++ ".\n".toList

def sortStrs (l : List Str) : List Str := l.mergeSort strLe

def hashFirstDegree (H : Str → Str) (ref : Str) (quads : List Quad) : Str :=
  H (sortStrs (quads.map (lineForHash ref))).flatten

/-! ### Step 3 -/

def step3 (H : Str → Str) (b2q : SMap (List Quad)) : SMap (List Str) × SMap Str :=
  b2q.foldl (fun (acc : SMap (List Str) × SMap Str) (e : Str × List Quad) =>
    let h := hashFirstDegree H e.1 e.2
    (acc.1.upsert h (pushAt e.1), acc.2.upsert e.1 (fun _ => h))) ([], [])

/-! ### Step 4 -/

/-- (next_h2b, canonical issuer): singletons are issued in hash order, the rest kept
(`bnids[0]` on an empty vector cannot happen: entries are created by `push`) -/
def step4 (h2b : SMap (List Str)) (canonical : Issuer) : SMap (List Str) × Issuer :=
  h2b.foldl (fun (acc : SMap (List Str) × Issuer) (e : Str × List Str) =>
    if e.2.length > 1 then (acc.1 ++ [e], acc.2)
    else match e.2 with
      | b :: _ => (acc.1, acc.2.issue' b)
      | [] => acc) ([], canonical)

/-! ### Hash Related Blank Node, Hash N-Degree Quads -/

/-- the read-only part of `C14nState` while `hash_n_degree_quads` runs -/
structure Ctx where
  H : Str → Str
  b2q : SMap (List Quad)
  b2h : SMap Str
  canonical : Issuer
  tooDeep : Nat → Nat → Bool
  permLimit : Nat

def hashRelated (c : Ctx) (related : Str) (q : Quad) (issuer : Issuer) (pos : Str) : Except HErr Str := do
  let pred ← if pos ≠ ['g'] then
      (match q.p with
       | .iri p => .ok ('<' :: p ++ ['>'])
       | _ => .error .panic)                -- quad.p().iri().unwrap()
    else .ok []
  let idPart ← match c.canonical.get related with
    | some cid => .ok ('_' :: ':' :: cid)
    | none => match issuer.get related with
      | some tid => .ok ('_' :: ':' :: tid)
      | none => match c.b2h.get related with
        | some h => .ok h
        | none => .error .panic             -- self.b2h.get(related).unwrap()
  .ok (c.H (pos ++ pred ++ idPart))

def hnComp (c : Ctx) (identifier : Str) (issuer : Issuer) (q : Quad)
    (hn : SMap (List Str)) (cp : Term × Str) : Except HErr (SMap (List Str)) :=
  match cp.1 with
  | .bnode b =>
    if b = identifier then .ok hn
    else do
      let h ← hashRelated c b q issuer cp.2
      .ok (hn.upsert h (pushAt b))
  | _ => .ok hn

/-- steps 1–3: related hash → related blank nodes -/
def buildHn (c : Ctx) (identifier : Str) (issuer : Issuer) : Except HErr (SMap (List Str)) :=
  match c.b2q.get identifier with
  | none => .error .panic                    -- self.b2q.get(identifier).unwrap()
  | some quads => quads.foldlM (fun hn q => (components q).foldlM (hnComp c identifier issuer q) hn) []

/-- `values.swap(i, j)` -/
def swap {α : Type} (l : List α) (i j : Nat) : List α :=
  match l[i]?, l[j]? with
  | some a, some b => (l.set i b).set j a
  | _, _ => l

/-- `_permutations.rs::permutations(values, f, size)`: the slices passed to `f`, in order, and the
final state of `values` -/
def heap {α : Type} : Nat → List α → List (List α) × List α
  | 0, v => ([], v)
  | 1, v => ([v], v)
  | size + 2, v =>
    (List.range (size + 2)).foldl (fun (acc : List (List α) × List α) i =>
      let r := heap (size + 1) acc.2
      let v' := if (size + 2) % 2 = 1 then swap r.2 0 (size + 1) else swap r.2 i (size + 1)
      (acc.1 ++ r.1, v')) ([], v)

/-- `for_each_permutation_of` -/
def heapPerms {α : Type} (l : List α) : List (List α) :=
  if l.isEmpty then [] else (heap l.length l).1

/-- `smaller_path`, following the source through `Gen.smallerPathLengthFirst` (regenerated by
tools/extractors/c06.py), which accepts exactly two bodies: the original one, comparing the lengths
first (flag `true`), and `path1.len() <= path2.len() && path1 < path2` (flag `false`, the skip rule of
the Recommendation, in /repo since 33fee4b).  (`str::len` is the byte
length; paths are ASCII — `_:`, `c14nN`/`bN`, `<`, hex, `>` — so it is the number of characters.) -/
def smallerPath (p1 p2 : Str) : Bool :=
  if Gen.smallerPathLengthFirst then
    match compare p1.length p2.length with
    | .lt => true
    | .eq => strLt p1 p2
    | .gt => false
  else
    decide (p1.length ≤ p2.length) && strLt p1 p2

structure Chosen where
  path : Str
  issuer : Option Issuer
  deriving Repr, DecidableEq, Inhabited

/-- step 5.4.4 for one related node: (issuer_copy, path, recursion_list) -/
def step544 (c : Ctx) (acc : Issuer × Str × List Str) (related : Str) : Issuer × Str × List Str :=
  match c.canonical.get related with
  | some cid => (acc.1, acc.2.1 ++ '_' :: ':' :: cid, acc.2.2)
  | none =>
    let r := acc.1.issue related
    (r.2, acc.2.1 ++ '_' :: ':' :: r.1.1, if r.1.2 then acc.2.2 ++ [related] else acc.2.2)

/-- step 5.4.5 for one member of the recursion list; `none` = "skip to the next permutation" -/
def step545 (recur : Str → Issuer → Except HErr (Str × Issuer)) (chosenPath : Str)
    (acc : Option (Issuer × Str)) (related : Str) : Except HErr (Option (Issuer × Str)) :=
  match acc with
  | none => .ok none
  | some (ic, path) => do
    let result ← recur related ic
    let id := (ic.issue related).1.1
    let path := path ++ '_' :: ':' :: id ++ '<' :: result.1 ++ ['>']
    if !chosenPath.isEmpty && smallerPath chosenPath path then .ok none
    else .ok (some (result.2, path))

/-- the closure passed to `for_each_permutation_of` -/
def permBody (c : Ctx) (recur : Str → Issuer → Except HErr (Str × Issuer)) (base : Issuer)
    (ch : Chosen) (p : List Str) : Except HErr Chosen := do
  let s := p.foldl (step544 c) (base, [], [])
  if !ch.path.isEmpty && smallerPath ch.path s.2.1 then .ok ch
  else do
    let r ← s.2.2.foldlM (step545 recur ch.path) (some (s.1, s.2.1))
    match r with
    | none => .ok ch
    | some (ic, path) =>
      if ch.path.isEmpty || strLt path ch.path then .ok ⟨path, some ic⟩ else .ok ch

/-- step 5 for one (related hash, blank node list) entry: (data_to_hash, ret_issuer) -/
def hnEntry (c : Ctx) (recur : Str → Issuer → Except HErr (Str × Issuer)) (issuer : Issuer)
    (acc : Str × Option Issuer) (e : Str × List Str) : Except HErr (Str × Option Issuer) :=
  if e.2.length > c.permLimit then .error .perms
  else do
    let ch ← (heapPerms e.2).foldlM (permBody c recur (acc.2.getD issuer)) ⟨[], none⟩
    .ok (acc.1 ++ e.1 ++ ch.path, ch.issuer)

def hashNDegree (c : Ctx) : Nat → Str → Issuer → Nat → Except HErr (Str × Issuer)
  | 0, _, _, _ => .error .fuel
  | fuel + 1, identifier, issuer, depth =>
    if c.tooDeep depth c.b2q.length then .error .depth
    else do
      let hn ← buildHn c identifier issuer
      let r ← hn.foldlM (hnEntry c (fun rel ic => hashNDegree c fuel rel ic (depth + 1)) issuer) ([], none)
      .ok (c.H r.1, r.2.getD issuer)

/-! ### Step 5 -/

/-- `sort_unstable_by_key(|p| p.0)` on hash/issuer pairs -/
def sortByHash (l : List (Str × Issuer)) : List (Str × Issuer) := l.mergeSort (fun a b => strLe a.1 b.1)

def issueAll (canonical : Issuer) (order : List Str) : Issuer := order.foldl Issuer.issue' canonical

def step5Group (H : Str → Str) (b2q : SMap (List Quad)) (b2h : SMap Str) (tooDeep : Nat → Nat → Bool)
    (permLimit fuel : Nat) (canonical : Issuer) (e : Str × List Str) : Except HErr Issuer := do
  let c : Ctx := ⟨H, b2q, b2h, canonical, tooDeep, permLimit⟩
  let hpl ← e.2.foldlM (fun (acc : List (Str × Issuer)) n => do
      let r ← hashNDegree c fuel n ((Issuer.new ['b']).issue' n) 0
      .ok (acc ++ [r])) []
  .ok ((sortByHash hpl).foldl (fun can r => issueAll can r.2.order) canonical)

def step5 (H : Str → Str) (b2q : SMap (List Quad)) (b2h : SMap Str) (tooDeep : Nat → Nat → Bool)
    (permLimit fuel : Nat) (h2b : SMap (List Str)) (canonical : Issuer) : Except HErr Issuer :=
  h2b.foldlM (step5Group H b2q b2h tooDeep permLimit fuel) canonical

/-! ### Step 6 and the public functions -/

def convert (issued : SMap Str) : Term → Except Err Term
  | .bnode b => match issued.get b with
    | some cid => .ok (.bnode cid)
    | none => .error .panic                 -- issued.get(bnid.as_str()).unwrap()
  | t => .ok t

def convertG (issued : SMap Str) : Option Term → Except Err (Option Term)
  | some g => match convert issued g with
    | .ok g' => .ok (some g')
    | .error e => .error e
  | none => .ok none

def convertQuad (issued : SMap Str) (q : Quad) : Except Err Quad := do
  let s ← convert issued q.s
  let p ← convert issued q.p
  let o ← convert issued q.o
  let g ← convertG issued q.g
  .ok ⟨s, p, o, g⟩

def liftH {α : Type} : Except HErr α → Except Err α
  | .ok a => .ok a
  | .error e => .error (.hnd e)

/-- `relabel_with` -/
def relabelWith (H : Str → Str) (tooDeep : Nat → Nat → Bool) (permLimit : Nat) (quads : List Quad) :
    Except Err (List Quad × SMap Str) := do
  let b2q ← step2 quads
  let s3 := step3 H b2q
  let s4 := step4 s3.1 (Issuer.new "c14n".toList)
  let canonical ← liftH (step5 H b2q s3.2 tooDeep permLimit (b2q.length + 1) s4.1 s4.2)
  let out ← quads.mapM (convertQuad canonical.issued)
  .ok (out, canonical.issued)

/-- `cmp_c14n_terms` -/
def cmpOptTerm (t1 t2 : Option Term) : Ordering :=
  cmpStr (match t1 with | some t => Cnq.nq t | none => []) (match t2 with | some t => Cnq.nq t | none => [])

/-- the closure given to `sort_unstable_by` in `normalize_with` -/
def cmpQuad (q1 q2 : Quad) : Ordering :=
  (cmpOptTerm (some q1.s) (some q2.s)).then
    ((cmpOptTerm (some q1.p) (some q2.p)).then
      ((cmpOptTerm (some q1.o) (some q2.o)).then (cmpOptTerm q1.g q2.g)))

def sortQuads (l : List Quad) : List Quad := l.mergeSort (fun a b => cmpQuad a b != .gt)

def line (q : Quad) : Str :=
  Cnq.nq q.s ++ Cnq.nq q.p ++ Cnq.nq q.o ++ (match q.g with | some g => Cnq.nq g | none => []) ++ ".\n".toList

def serialize (quads : List Quad) : Str := (quads.map line).flatten

/-- `normalize_with` -/
def normalizeWith (H : Str → Str) (tooDeep : Nat → Nat → Bool) (permLimit : Nat) (quads : List Quad) :
    Except Err Str := do
  let r ← relabelWith H tooDeep permLimit quads
  .ok (serialize (sortQuads r.1))

/-! ### "within the limits", statically

`relatedBound b2q b`: how many times `hash_n_degree_quads(b, …)` pushes a related blank node (one per
occurrence of another blank node in a quad filed under `b`, quads filed once per occurrence of `b`):
no related-blank-node list of `b` can be longer.  `withinLimits`: no such bound exceeds the
permutation limit, and the depth guard does not trip at any depth up to the number of blank nodes
(the recursion is never deeper: every level issues a new identifier).  `SophiaProofs.C06.
never_fails_within_limits`: then `relabel_with` cannot fail with `ToxicGraph`. -/

def relatedCount (ident : Str) (q : Quad) : Nat :=
  ((components q).filter (fun c => match c.1 with | .bnode b => b != ident | _ => false)).length

def relatedBound (b2q : SMap (List Quad)) (ident : Str) : Nat :=
  (((b2q.get ident).getD []).map (relatedCount ident)).sum

def withinLimits (tooDeep : Nat → Nat → Bool) (permLimit : Nat) (b2q : SMap (List Quad)) : Bool :=
  b2q.all (fun e => relatedBound b2q e.1 ≤ permLimit) &&
    (List.range (b2q.length + 1)).all (fun d => !tooDeep d b2q.length)

/-- sizes of the step-5 groups (driver: is the unstable sort of step 5.3 pinned down?) -/
def groupSizes (H : Str → Str) (quads : List Quad) : List Nat :=
  match step2 quads with
  | .ok b2q => ((step4 (step3 H b2q).1 (Issuer.new "c14n".toList)).1).map (·.2.length)
  | .error _ => []

end SophiaModel.Rdfc10
