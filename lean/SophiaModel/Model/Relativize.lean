/-
Model of `iri/src/relativize.rs` (`Relativizer::new`, `Relativizer::relativize`,
`longest_common_prefix`), branch by branch, with the same index arithmetic.

Strings.  The Rust code works on UTF-8 *byte* offsets (`str::len`, `find`, `rfind`, slicing,
`bytes().zip(..)`).  A string is therefore modelled by the list of its UTF-8 octets, each octet
represented by the `Char` with that code (< 256): `Octets = Str`.  All delimiters tested by the
code (`: / ? # .`) are ASCII, so they are the same octets/chars, and the RFC 3986 functions of
`Model/Resolve3986.lean` (which only ever inspect ASCII delimiters) apply to octet strings as they
are.  `ofUtf8`/`toUtf8` (driver only) convert from/to real strings.

Partiality.  `&iri[k..]` panics in Rust when `k` is not a char boundary (`str::is_char_boundary`:
`k == 0`, `k == len`, or octet `k` is not a continuation byte `0x80..=0xBF`) or `k > len`.  Every
slice *of the IRI* in `relativize` goes through `sliceFrom`, whose `none` becomes the outcome
`panic`.  The slices of the *base* in `new` are taken at positions that are the position of, or one
past, an ASCII delimiter of the base found by `find`/`rfind`, or a component end reported by the
IRI parser (component ends are followed by an ASCII delimiter or the end of the string): they are
modelled by plain `List.take/drop`.

`BaseIri` accessors (`scheme()`, `authority()`, `path()`; oxiri's parser positions) are modelled by
the RFC 3986 Appendix-B split, with which they coincide on every string `BaseIri::new` accepts.
-/
import SophiaModel.Model.Resolve3986

namespace SophiaModel.Relativize
open SophiaModel

/-- a string as the list of its UTF-8 octets (each octet = the `Char` with that code) -/
abbrev Octets := Str

/-- `longest_common_prefix`: `s1.bytes().zip(s2.bytes()).take_while(|(b1, b2)| b1 == b2).count()` -/
def lcp : Octets → Octets → Nat
  | a :: as, b :: bs => if a = b then lcp as bs + 1 else 0
  | _, _ => 0

/-- `str::find(char)` for an ASCII char: offset of the first occurrence -/
def find (c : Char) : Octets → Option Nat
  | [] => none
  | x :: xs => if x = c then some 0 else (find c xs).map (· + 1)

/-- `str::rfind(char)` for an ASCII char: offset of the last occurrence -/
def rfind (c : Char) : Octets → Option Nat
  | [] => none
  | x :: xs =>
    match rfind c xs with
    | some i => some (i + 1)
    | none => if x = c then some 0 else none

/-- `&s[a..b]` (no boundary check: used on the base only, see header) -/
def slice (s : Octets) (a b : Nat) : Octets := (s.take b).drop a

/-- UTF-8 continuation byte `10xxxxxx` -/
def isCont (c : Char) : Bool := 0x80 ≤ c.toNat && c.toNat < 0xC0

/-- `str::is_char_boundary` -/
def isCharBoundary (s : Octets) (k : Nat) : Bool :=
  if k = 0 then true
  else match s[k]? with
    | none => k == s.length
    | some c => !isCont c

/-- number of continuation octets announced by a lead octet (`none`: `c` cannot start a character) -/
def contCount (c : Char) : Option Nat :=
  if c.toNat < 0x80 then some 0
  else if c.toNat < 0xC0 then none
  else if c.toNat < 0xE0 then some 1
  else if c.toNat < 0xF0 then some 2
  else if c.toNat < 0xF8 then some 3
  else none

/-- one step of the UTF-8 shape automaton: `pending` continuation octets are still due -/
def utf8Next (pending : Nat) (c : Char) : Option Nat :=
  match pending with
  | 0 => contCount c
  | m + 1 => if isCont c then some m else none

/-- the octets have the SHAPE of UTF-8 (every lead octet is followed by exactly the number of continuation octets it
announces). Every Rust `str` has it (`utf8Shaped 0`); overlong forms, surrogates and code points above U+10FFFF are
not excluded, so theorems assuming it cover a superset of the real inputs. The driver evaluates it on every case
(`utf8=`), the harness answers 1 for every `&str`. -/
def utf8Shaped : Nat → Octets → Bool
  | p, [] => p == 0
  | p, c :: r =>
    match utf8Next p c with
    | some p' => utf8Shaped p' r
    | none => false

/-- the one base shape on which `iri[pseudoroot - 1..]` can cut a character (finding C17-boundary-panic): a non-empty
authority whose last octet is a continuation octet (it ends in a multi-byte character) followed by an empty path -/
def authEndsMultibyteNoPath (base : Octets) : Bool :=
  let b := Rfc3986.split base
  match b.authority with
  | some a => b.path.isEmpty && (match a.getLast? with | some c => isCont c | none => false)
  | none => false

/-- `&s[k..]`; `none` = panic ("byte index k is not a char boundary" / out of range) -/
def sliceFrom (s : Octets) (k : Nat) : Option Octets :=
  if isCharBoundary s k then some (s.drop k) else none

/-- `t.starts_with(['?', '#'])` -/
def startsQH : Octets → Bool
  | '?' :: _ => true
  | '#' :: _ => true
  | _ => false

/-- `t.starts_with('/')` -/
def startsSlash : Octets → Bool
  | '/' :: _ => true
  | _ => false

structure Relativizer where
  base : Octets
  query_end : Nat
  path_end : Nat
  slashes : List Nat
  pseudoroot : Nat
  deriving Repr, DecidableEq, Inhabited

/-- the `for _ in 0..=parents` loop of `new`: `iters` iterations left, current `pos`, slashes pushed so far -/
def slashLoop (s : Octets) (path_begin : Nat) : Nat → Nat → List Nat → List Nat
  | 0, _, acc => acc
  | iters + 1, pos, acc =>
    let i := (rfind '/' (slice s path_begin pos)).getD 0
    if i > 0 then
      let pos' := i + path_begin
      slashLoop s path_begin iters pos' (acc ++ [pos'])
    else
      -- no slash was found, or it was found at the start of the path
      acc

/-- `base.scheme().len() + 1 + base.authority().map(|a| a.len() + 2).unwrap_or(0)` -/
def pathBegin (p : Rfc3986.Parts) : Nat :=
  (p.scheme.getD []).length + 1 + (match p.authority with | some a => a.length + 2 | none => 0)

/-- `s[path_end..].find('#').map(|i| i + path_end).unwrap_or(s.len())` -/
def queryEnd (s : Octets) (path_end : Nat) : Nat :=
  match find '#' (s.drop path_end) with
  | some i => i + path_end
  | none => s.length

/-- `s[path_end..query_end].find('?').map(|i| i + path_end).unwrap_or(query_end)` -/
def pathEnd (s : Octets) (path_end query_end : Nat) : Nat :=
  match find '?' (slice s path_end query_end) with
  | some i => i + path_end
  | none => query_end

/-- the end of `new`: `has_root`, `pseudoroot` (popping the last slash if `parents + 1` were found) -/
def finish (base : Octets) (query_end path_end path_begin parents : Nat) (slashes : List Nat) : Relativizer :=
  let has_root := startsSlash (base.drop path_begin)
  if slashes.length > parents then
    { base, query_end, path_end, slashes := slashes.dropLast, pseudoroot := slashes.getLast?.getD 0 + 1 }
  else if has_root then
    { base, query_end, path_end, slashes, pseudoroot := path_begin + 1 }
  else
    { base, query_end, path_end, slashes, pseudoroot := path_begin }

/-- `Relativizer::new(base, parents)` -/
def new (base : Octets) (parents : Nat) : Relativizer :=
  let p := Rfc3986.split base
  let path_begin := pathBegin p
  let path_end := path_begin + p.path.length
  let query_end := queryEnd base path_end
  let path_end := pathEnd base path_end query_end
  let slashes := slashLoop base path_begin (parents + 1) path_end []
  finish base query_end path_end path_begin parents slashes

/-- `vec![".."; nb + 1]` with the last part replaced by the tail, joined by "/": `nb` times "../" -/
def dotdots : Nat → Octets
  | 0 => []
  | n + 1 => '.' :: '.' :: '/' :: dotdots n

/-- what `relativize` puts in front of the slice of the IRI it emits -/
inductive Ins where
  | nothing            -- `iri[k..].into()`
  | dotSlash           -- `format!("./{}", &iri[k..])`
  | up (nb : Nat)      -- `parts = vec![".."; nb + 1]; parts[nb] = &iri[k..]; parts.join("/")`
  deriving Repr, DecidableEq, Inhabited

def Ins.str : Ins → Octets
  | .nothing => []
  | .dotSlash => ['.', '/']
  | .up nb => dotdots nb

/-- result of `relativize`: a panic, `None`, or `Some(ins ++ tail)` where `tail` is a slice `iri[k..]` -/
inductive Outcome where
  | panic
  | none
  | some (ins : Ins) (tail : Octets)
  deriving Repr, DecidableEq, Inhabited

/-- the returned string -/
def Outcome.str? : Outcome → Option Octets
  | .some ins t => Option.some (ins.str ++ t)
  | _ => Option.none

/-- evaluate `&iri[k..]` and continue, or panic -/
def withSlice (iri : Octets) (k : Nat) (f : Octets → Outcome) : Outcome :=
  match sliceFrom iri k with
  | Option.none => .panic
  | Option.some t => f t

/-- `for (nb, slash) in slashes.iter().copied().enumerate() { if lcp > slash { return … } }`:
the first `(nb, slash)` with `lcp > slash` -/
def firstBelow (l : Nat) : List Nat → Nat → Option (Nat × Nat)
  | [], _ => Option.none
  | slash :: rest, nb => if l > slash then Option.some (nb, slash) else firstBelow l rest (nb + 1)

/-- the `else if lcp >= self.pseudoroot { … } else { None }` part of `relativize` -/
def pathBranch (r : Relativizer) (iri : Octets) (l : Nat) : Outcome :=
  if l ≥ r.pseudoroot then
    -- iri and base have similar paths
    match firstBelow l r.slashes 0 with
    | Option.some (nb, slash) =>
      if nb = 0 then
        withSlice iri (slash + 1) fun t =>
          if iri.length = slash + 1 || startsQH t then
            .some .dotSlash t   -- insert ./ if there is no path element after the last slash
          else .some .nothing t
      else
        -- insert the expected amount of '../'
        withSlice iri (slash + 1) fun t => .some (.up nb) t
    | Option.none =>
      if r.slashes.isEmpty then
        withSlice iri (r.pseudoroot - 1) fun t1 =>
          withSlice iri r.pseudoroot fun t =>
            if startsSlash t1 && (iri.length = r.pseudoroot || startsQH t) then .some .dotSlash t
            else .some .nothing t
      else
        withSlice iri r.pseudoroot fun t => .some (.up r.slashes.length) t
  else
    -- iri and base are too different to relativize
    .none

/-- `Relativizer::relativize(iri)` (release semantics: `IriRef::new_unchecked` does not check; with
debug assertions it is `IriRef::new(..).unwrap()`, mirrored by the driver) -/
def relativize (r : Relativizer) (iri : Octets) : Outcome :=
  let l := lcp r.base iri
  if l ≥ r.query_end then
    -- "iri is identical to base or differs in the fragment only" (sic)
    withSlice iri r.query_end (.some .nothing)
  else if l > r.path_end then
    withSlice iri r.path_end (.some .nothing)
  else if l = r.path_end then
    -- `lcp == path_end && (iri.len() == path_end || iri[path_end..].starts_with(['?', '#']))`
    -- (when `iri.len() == path_end` the slice is the empty string and cannot panic)
    withSlice iri r.path_end fun t =>
      if iri.length = r.path_end || startsQH t then .some .nothing t
      else pathBranch r iri l
  else pathBranch r iri l

/-! ### oracle-side helpers (what the property demands of a result) and the proved region -/

/-- number of leading `..` segments of the path of a reference -/
def countDotDot : Octets → Nat
  | '.' :: '.' :: '/' :: r => countDotDot r + 1
  | ['.', '.'] => 1
  | '.' :: '.' :: '?' :: _ => 1
  | '.' :: '.' :: '#' :: _ => 1
  | _ => 0

/-- a reference that `Rfc3986.split` reads without scheme and without authority (so that §5.2.2 takes
the merge / absolute-path / same-document branch) -/
def isPlainRef (r : Octets) : Bool :=
  let p := Rfc3986.split r
  p.scheme.isNone && p.authority.isNone

/-- split on '/' (always at least one segment) -/
def splitSlash : Octets → List Octets
  | [] => [[]]
  | c :: cs =>
    if c = '/' then [] :: splitSlash cs
    else match splitSlash cs with
      | s :: ss => (c :: s) :: ss
      | [] => [[c]]

def isDotSeg (s : Octets) : Bool := s == ['.'] || s == ['.', '.']

/-- no segment of the path is "." or ".." -/
def noDotSegs (p : Octets) : Bool := (splitSlash p).all (fun s => !isDotSeg s)

def startsWith (c : Char) : Octets → Bool
  | x :: _ => x == c
  | [] => false

/-- `CleanTail`: the emitted tail `t` (a slice of the IRI), read after the inserted prefix `ins`, is a
relative-path reference that resolution leaves alone: its path part has no dot segment and, when nothing
is inserted in front of it, it is not empty, does not begin with an empty segment ('/') and has no ':'
in its first segment. -/
def cleanTail (ins : Ins) (t : Octets) : Bool :=
  let tp := (Rfc3986.spanNot ['?', '#'] t).1
  noDotSegs tp &&
  match ins with
  | .nothing => !tp.isEmpty && !startsWith '/' tp && !startsWith ':' (Rfc3986.spanNot [':', '/', '?', '#'] t).2
  | .dotSlash => true
  | .up k => k ≥ 1

/-- the region in which `rel_inverse_partial` proves the result correct (decidable; also evaluated by
the driver as `m.clean` so that the differential cross-checks the statement on every generated case):
* (Q) the common prefix covers the base path (`lcp ≥ path_end`) and the IRI continues with a query
  (`iri[path_end..]` starts with '?'), the base having no query of its own when the common prefix reaches
  `query_end`;
* (F) the common prefix reaches `query_end` and the IRI continues with nothing or a fragment;
* (P) a path tail: the base path is free of dot segments, the tail starts strictly inside it (the cut
  `iri.len() - tail.len()` is after `path_begin`: always so for rooted base paths; for rootless ones this
  excludes "../" up to the very top, where RFC 3986 §5.2.4 yields a rooted path), `CleanTail` holds, and either the
  common prefix stops inside the path (`lcp ≤ path_end`, `lcp < query_end`: the path branches) or the base
  is a query-less directory (path ending in '/') that the IRI extends; the IRI has the authority of the
  base (not needed for `rel_inverse_partial`, whose conclusion is an equality of strings, but for
  `rel_is_ref_partial`);
* (E) the base path is empty and the tail is an absolute path ("/…" but not "//…") free of dot segments. -/
def cleanCase (base : Octets) (n : Nat) (iri : Octets) : Bool :=
  let R := new base n
  let b := Rfc3986.split base
  let l := lcp base iri
  match relativize R iri with
  | .some ins t =>
    b.scheme.isSome &&
    ( (l ≥ R.path_end && startsWith '?' (iri.drop R.path_end) && (l < R.query_end || b.query.isNone))
      || (l ≥ R.query_end && ((iri.drop R.query_end).isEmpty || startsWith '#' (iri.drop R.query_end)))
      || (((l ≤ R.path_end && l < R.query_end)
            || (l ≥ R.query_end && b.query.isNone && b.path.getLast? == Option.some '/'))
          && iri.length - t.length > pathBegin b && noDotSegs b.path && cleanTail ins t
          && (Rfc3986.split iri).authority == b.authority)
      || (b.path.isEmpty
          && ((l ≥ R.query_end && b.query.isNone) || (l < R.query_end && l ≤ R.path_end))
          && startsWith '/' t && !startsWith '/' (t.drop 1)
          && noDotSegs ((Rfc3986.spanNot ['?', '#'] t).1.drop 1)) )
  | _ => false

/-- a relative path that resolution leaves alone wherever a reference starts with it: no dot segment, and empty or
neither starting with '/' nor with a ':' in its first segment -/
def cleanRel (t : Octets) : Bool :=
  let tp := (Rfc3986.spanNot ['?', '#'] t).1
  noDotSegs tp && (tp.isEmpty || (!startsWith '/' tp && !startsWith ':' (Rfc3986.spanNot [':', '/', '?', '#'] t).2))

/-- INPUT-side condition on (base, IRI): every suffix of the IRI that starts right after a '/' of the base path lying
inside the common byte prefix, at or after position `lo`, is `cleanRel` -/
def cleanSuffixes (lo : Nat) (base iri : Octets) : Bool :=
  let pb := pathBegin (Rfc3986.split base)
  (List.range (lcp base iri + 1)).all fun c =>
    !(decide (lo ≤ c) && decide (pb < c) && base[c - 1]? == some '/') || cleanRel (iri.drop c)

/-- INPUT-side region (P) of `rel_input_partial` (no reference to what `relativize` returns): the base has a scheme and
a path without dot segments, `pseudoroot` lies strictly inside the path (always so for rooted paths; for rootless ones
this excludes '../' up to the very top), the common byte prefix ends inside the base path (strictly, or at its end
with the IRI's path going on and the base having a query), at or after `pseudoroot`, and `cleanSuffixes` holds from
`pseudoroot` on. The driver prints it as `m.inpath`. -/
def pathInputCase (base : Octets) (n : Nat) (iri : Octets) : Bool :=
  let R := new base n
  let b := Rfc3986.split base
  let l := lcp base iri
  b.scheme.isSome && noDotSegs b.path && decide (R.pseudoroot > pathBegin b) && decide (l ≥ R.pseudoroot) &&
    decide (l ≤ R.path_end) && decide (l < R.query_end) &&
    (decide (l < R.path_end) || (decide (iri.length ≠ R.path_end) && !startsQH (iri.drop R.path_end))) &&
    cleanSuffixes R.pseudoroot base iri

/-- INPUT-side region (X): a query-less directory base (path ending in '/', no dot segments) that the IRI extends by a
clean, non-empty relative path -/
def extInputCase (base : Octets) (n : Nat) (iri : Octets) : Bool :=
  let R := new base n
  let b := Rfc3986.split base
  let t := iri.drop R.query_end
  b.scheme.isSome && noDotSegs b.path && b.query.isNone && b.path.getLast? == some '/' &&
    decide (lcp base iri ≥ R.query_end) && cleanRel t && !t.isEmpty && !startsQH t

/-- INPUT-side region (S): same document - the IRI has the scheme, authority and path of the base - and the query is
the base's, or the base has none, or the IRI has one that does not extend the base's -/
def sameDocInputCase (base : Octets) (n : Nat) (iri : Octets) : Bool :=
  let R := new base n
  let b := Rfc3986.split base
  let i := Rfc3986.split iri
  b.scheme.isSome && i.scheme == b.scheme && i.authority == b.authority && i.path == b.path &&
    (i.query == b.query || b.query.isNone || (i.query.isSome && decide (lcp base iri < R.query_end)))

/-- INPUT-side region (E): empty base path (authority not ending in a multi-byte character), IRI continuing after the
authority with an absolute path ("/…", not "//…") free of dot segments -/
def emptyPathInputCase (base : Octets) (n : Nat) (iri : Octets) : Bool :=
  let R := new base n
  let b := Rfc3986.split base
  let l := lcp base iri
  let t := iri.drop (pathBegin b)
  b.scheme.isSome && b.path.isEmpty && !authEndsMultibyteNoPath base && decide (l ≥ pathBegin b) &&
    ((decide (l ≥ R.query_end) && b.query.isNone) || (decide (l < R.query_end) && decide (l ≤ R.path_end))) &&
    startsWith '/' t && !startsWith '/' (t.drop 1) && noDotSegs ((Rfc3986.spanNot ['?', '#'] t).1.drop 1)

/-- the union of the input-side regions (`m.inreg` in the driver) -/
def inputCase (base : Octets) (n : Nat) (iri : Octets) : Bool :=
  sameDocInputCase base n iri || pathInputCase base n iri || extInputCase base n iri || emptyPathInputCase base n iri

/-- octets of a string / string of octets (driver) -/
def ofUtf8 (s : String) : Octets := s.toUTF8.data.toList.map (fun b => Char.ofNat b.toNat)
def toBytes (o : Octets) : ByteArray := ByteArray.mk (o.map (fun c => UInt8.ofNat c.toNat)).toArray

end SophiaModel.Relativize
