/-
C16 — the call graph of the anchored files, as a model of what can be on the call stack.

`Gen.RecursionSites.callEdges` is regenerated from /repo on every run: every call between functions
of one anchored file, flagged *descending* when the call expression is transcribed as passing a
strict sub-structure of the caller's argument (a component of a quoted triple, an item of a
collection, the inner pattern of an operator, a sub-expression, the rest of the pattern / criteria
list, half of the slice).  A *call chain* is what the stack can hold: consecutive edges, the nesting
measure of the argument strictly decreasing on a descending edge and not increasing on any other.

Loops over data (rows, characters, graph names, list cells, arcs) are not edges: an iteration
returns before the next one starts, so a loop adds nothing to a chain.  A recursion over data IS an
edge — a non-descending one on a cycle — and `wellRanked` rejects exactly that.
-/
import SophiaModel.Gen.RecursionSites

namespace SophiaModel.Depth

abbrev CallEdge := Nat × Nat × Bool

def rankOf (r : List Nat) (i : Nat) : Nat := r.getD i 0

def maxRank (r : List Nat) : Nat := r.foldl max 0

/-- `r` strictly decreases along every non-descending edge: the non-descending edges have no cycle,
i.e. every cycle of the call graph passes a descending edge -/
def wellRanked (es : List CallEdge) (r : List Nat) : Bool :=
  es.all (fun e => e.2.2 || decide (rankOf r e.2.1 < rankOf r e.1))

/-- `Chain es cur nest p`: `p` is a sequence of nested calls starting in function `cur` whose
argument has nesting measure `nest` -/
inductive Chain (es : List CallEdge) : Nat → Nat → List CallEdge → Prop where
  | nil (cur nest : Nat) : Chain es cur nest []
  | step (e : CallEdge) (nest nest' : Nat) (rest : List CallEdge) :
      e ∈ es → (if e.2.2 then nest' < nest else nest' ≤ nest) → Chain es e.2.1 nest' rest →
      Chain es e.1 nest (e :: rest)

end SophiaModel.Depth
