/-
`sophia_isomorphism` (isomorphism/src/{iso_term,hash,dataset,graph}.rs), transcribed function by function.

* `deep : Bool` selects the shape of `IsoTerm`'s `PartialEq`/`PartialOrd`/`Ord`: `false` = the snapshot
  ("both blank nodes → equal, otherwise `Term::eq`/`Term::cmp` of the wrapped terms": blank nodes are
  interchangeable *at top level only*), `true` = notes/fixes/C07-nested-bnodes.diff (recursion into
  quoted triples).  Which one /repo has is regenerated into `Gen.IsoVariant.deep` on every run.
* `sort` stands for `<[_]>::sort_unstable` (std, trusted): a parameter, constrained in the theorems by
  `SortSpec` only.  `isort` is the concrete instance the driver runs.
* `h` stands for "feed these events to a fresh `DefaultHasher` and `finish()`": an arbitrary function of
  the event trace (SipHash is a function of the byte stream, which the trace determines).
* `HashMap<String, _>` / `HashMap<&str, u64>` / `HashMap<u64, usize>` are association lists with
  distinct keys; their iteration order is only ever used to build another map, a length, or `==`.
-/
import SophiaModel.Basic.TermOrder

namespace SophiaModel.Iso
open SophiaModel SophiaModel.Term

/-! ### iso_term.rs -/

/-- `impl PartialEq<IsoTerm<T1>> for IsoTerm<T2>` -/
def isoEq (deep : Bool) : Term → Term → Bool
  | .bnode _, .bnode _ => true
  | .triple s1 p1 o1, .triple s2 p2 o2 =>
    if deep then isoEq deep s1 s2 && isoEq deep p1 p2 && isoEq deep o1 o2
    else termEq (.triple s1 p1 o1) (.triple s2 p2 o2)
  | a, b => termEq a b

/-- `impl Ord for IsoTerm<T>` (= the `PartialOrd` impl) -/
def isoCmp (deep : Bool) : Term → Term → Ordering
  | .bnode _, .bnode _ => .eq
  | .triple s1 p1 o1, .triple s2 p2 o2 =>
    if deep then (isoCmp deep s1 s2).then ((isoCmp deep p1 p2).then (isoCmp deep o1 o2))
    else termCmp (.triple s1 p1 o1) (.triple s2 p2 o2)
  | a, b => termCmp a b

/-- `eq_gn` -/
def eqGn (deep : Bool) : Option Term → Option Term → Bool
  | none, none => true
  | some a, some b => isoEq deep a b
  | _, _ => false

/-- `eq_triples` -/
def eqTriples (deep : Bool) (q1 q2 : Quad) : Bool :=
  isoEq deep q1.s q2.s && isoEq deep q1.p q2.p && isoEq deep q1.o q2.o

/-- `cmp_quads` (an equality test, despite its name) -/
def cmpQuads (deep : Bool) (q1 q2 : Quad) : Bool := eqTriples deep q1 q2 && eqGn deep q1.g q2.g

/-- derived `Ord` of `Option<IsoTerm<_>>`: `None < Some(_)` -/
def gnCmp (deep : Bool) : Option Term → Option Term → Ordering
  | none, none => .eq
  | none, some _ => .lt
  | some _, none => .gt
  | some a, some b => isoCmp deep a b

/-- derived `Ord` of `Spog<IsoTerm<_>> = ([IsoTerm<_>; 3], Option<IsoTerm<_>>)`: lexicographic -/
def quadCmp (deep : Bool) (q1 q2 : Quad) : Ordering :=
  (isoCmp deep q1.s q2.s).then ((isoCmp deep q1.p q2.p).then ((isoCmp deep q1.o q2.o).then (gnCmp deep q1.g q2.g)))

/-! ### a concrete sort (the driver's instance of the `sort` parameter) -/

def insertQ (deep : Bool) (q : Quad) : List Quad → List Quad
  | [] => [q]
  | x :: xs => if quadCmp deep q x == .gt then x :: insertQ deep q xs else q :: x :: xs

def isort (deep : Bool) (l : List Quad) : List Quad := l.foldr (insertQ deep) []

/-! ### dataset.rs: `make_b2q_map` -/

/-- `Term::constituents` (api/src/term.rs): the term itself, then the constituents of s, p, o -/
def constituents : Term → List Term
  | .triple s p o => .triple s p o :: (constituents s ++ (constituents p ++ constituents o))
  | t => [t]

/-- `iter_spog` -/
def iterSpog (q : Quad) : List Term := [q.s, q.p, q.o] ++ q.g.toList

def bnodeId : Term → Option Str
  | .bnode b => some b
  | _ => none

/-- labels met by the three nested `for` loops of `make_b2q_map` for one quad, in scan order -/
def quadBnodes (q : Quad) : List Str := ((iterSpog q).flatMap constituents).filterMap bnodeId

/-- `HashMap<String, BTreeSet<usize>>` -/
abbrev B2Q := List (Str × List Nat)

/-- `BTreeSet::insert`; the indices inserted by `make_b2q_map` never decrease, so appending keeps the
set's (ascending) iteration order -/
def setInsert (s : List Nat) (i : Nat) : List Nat := if s.contains i then s else s ++ [i]

/-- `ret.entry(bnid).or_insert_with(BTreeSet::new).insert(i)` -/
def b2qInsert : B2Q → Str → Nat → B2Q
  | [], b, i => [(b, [i])]
  | (k, s) :: rest, b, i => if k == b then (k, setInsert s i) :: rest else (k, s) :: b2qInsert rest b i

def b2qFrom : Nat → List Quad → B2Q → B2Q
  | _, [], m => m
  | i, q :: qs, m => b2qFrom (i + 1) qs ((quadBnodes q).foldl (fun m b => b2qInsert m b i) m)

/-- `make_b2q_map` -/
def makeB2q (d : List Quad) : B2Q := b2qFrom 0 d []

/-! ### hash.rs -/

/-- what is fed to the `DefaultHasher`, call by call -/
inductive Ev where
  | t (e : HashEv)        -- from `Term::hash`, `TermKind::hash`, `char::hash`
  | col (v : UInt64)      -- `u64::hash` of a colour
  | noGraph               -- `(None as Option<i32>).hash`
  deriving DecidableEq

/-- `HashMap<&str, u64>` -/
abbrev CMap := List (Str × UInt64)

/-- `*map.get(bnid).unwrap()`.  The `unwrap` cannot fail: every label met while hashing a quad of `d`
is a key of `make_b2q_map(d)` (lemma `colour_covered` in the proofs); the default is never used. -/
def colour (m : CMap) (b : Str) : UInt64 := (m.lookup b).getD 0

/-- `hash_term_with` / `hash_triple_with` with `context = (ctx, pos)` -/
def evTerm (m : CMap) (ctx : Str) : Char → Term → List Ev
  | pos, .bnode b => (if b == ctx then [.t (.chr pos)] else []) ++ [.col (colour m b)]
  | _, .triple s p o => .t (.disc 3) :: (evTerm m ctx 's' s ++ (evTerm m ctx 'p' p ++ evTerm m ctx 'o' o))
  | _, t => (termHash t).map .t

def evQuad (m : CMap) (ctx : Str) (q : Quad) : List Ev :=
  evTerm m ctx 's' q.s ++ (evTerm m ctx 'p' q.p ++ (evTerm m ctx 'o' q.o ++
    (match q.g with
     | none => [.noGraph]
     | some g => evTerm m ctx 'g' g)))

/-- `hash_quad_with` -/
def hashQuadWith (h : List Ev → UInt64) (q : Quad) (m : CMap) (ctx : Str) : UInt64 := h (evQuad m ctx q)

/-! ### dataset.rs: colours -/

/-- initial colours: `(k, v.len() as u64)` -/
def initMap (b2q : B2Q) : CMap := b2q.map (fun kv => (kv.1, kv.2.length.toUInt64))

/-- `digest ^= hash_quad_with(&d[*i], map, bnid)` (the index is always in range) -/
def digestStep (h : List Ev → UInt64) (d : List Quad) (m : CMap) (b : Str) (dig : UInt64) (i : Nat) : UInt64 :=
  match d[i]? with
  | some q => dig ^^^ hashQuadWith h q m b
  | none => dig

/-- `make_map` -/
def makeMap (h : List Ev → UInt64) (d : List Quad) (b2q : B2Q) (m : CMap) : CMap :=
  b2q.map (fun kv => (kv.1, kv.2.foldl (digestStep h d m kv.1) 0))

/-- `HashMap<u64, usize>` -/
abbrev EqCl := List (UInt64 × Nat)

/-- `*ret.entry(v).or_insert(0) += 1` -/
def bump : EqCl → UInt64 → EqCl
  | [], v => [(v, 1)]
  | (k, n) :: rest, v => if k == v then (k, n + 1) :: rest else (k, n) :: bump rest v

/-- `make_equivalence_classes` -/
def eqClasses (m : CMap) : EqCl := m.foldl (fun e kv => bump e kv.2) []

/-- `HashMap::eq`: same length and every entry of the left map is found in the right one -/
def eqclEq (e1 e2 : EqCl) : Bool :=
  e1.length == e2.length && e1.all (fun kn => e2.lookup kn.1 == some kn.2)

/-- the `loop { … }` of `isomorphic_datasets`; `none` = fuel exhausted (termination is not claimed) -/
def refine (h : List Ev → UInt64) (d1 d2 : List Quad) (b1 b2 : B2Q) :
    Nat → CMap → CMap → Nat → Nat → Option Bool
  | 0, _, _, _, _ => none
  | fuel + 1, map1, map2, old1, old2 =>
    let map1' := makeMap h d1 b1 map1
    let map2' := makeMap h d2 b2 map2
    let e1 := eqClasses map1'
    let e2 := eqClasses map2'
    if e1.length == old1 && e2.length == old2 then some (eqclEq e1 e2)
    else if e1.length == map1'.length && e2.length == map2'.length then some (eqclEq e1 e2)
    else refine h d1 d2 b1 b2 fuel map1' map2' e1.length e2.length

/-! ### the three gates and `isomorphic_datasets` -/

/-- `d1.len() != d2.len()` → false -/
def sizeGate (D1 D2 : List Quad) : Bool := D1.length == D2.length

/-- `d1.iter().zip(d2.iter()).all(cmp_quads)` on the sorted vectors -/
def zipGate (deep : Bool) (d1 d2 : List Quad) : Bool := (d1.zip d2).all (fun ab => cmpQuads deep ab.1 ab.2)

/-- `b2q1.len() != b2q2.len()` → false -/
def bcountGate (b1 b2 : B2Q) : Bool := b1.length == b2.length

/-- all three gates (what `isomorphic_datasets` checks before colour refinement) -/
def gates (deep : Bool) (sort : List Quad → List Quad) (D1 D2 : List Quad) : Bool :=
  sizeGate D1 D2 && zipGate deep (sort D1) (sort D2) && bcountGate (makeB2q (sort D1)) (makeB2q (sort D2))

/-- `isomorphic_datasets` after `prepare_dataset` (`isomorphic_graphs` = the same on the default graph) -/
def iso (deep : Bool) (sort : List Quad → List Quad) (h : List Ev → UInt64) (fuel : Nat)
    (D1 D2 : List Quad) : Option Bool :=
  if !sizeGate D1 D2 then some false else
  let d1 := sort D1
  let d2 := sort D2
  if !zipGate deep d1 d2 then some false else
  let b1 := makeB2q d1
  let b2 := makeB2q d2
  if !bcountGate b1 b2 then some false else
  refine h d1 d2 b1 b2 fuel (initMap b1) (initMap b2) 0 0

/-! ### fallible containers: `prepare_dataset(d1).map_err(SourceError)?`, `prepare_dataset(d2).map_err(SinkError)?` -/

/-- `Ok(bool)` (`none` inside = loop not finished within the fuel) or the side whose traversal failed -/
inductive Outcome where
  | answer (b : Option Bool)
  | sourceError
  | sinkError
  deriving DecidableEq, Repr

/-- `d.quads().map(…).collect::<Result<Vec<_>, _>>()` is an `Err` iff the iterator yields one: the container fails
at index `k` (`none` = never) and holds more than `k` statements -/
def fails (f : Option Nat) (D : List Quad) : Bool :=
  match f with
  | some k => decide (k < D.length)
  | none => false

/-- `isomorphic_datasets` on two fallible containers (`isomorphic_graphs` = the same through `as_dataset`, which
passes the graph's errors on): the first argument is traversed first -/
def isoE (deep : Bool) (sort : List Quad → List Quad) (h : List Ev → UInt64) (fuel : Nat)
    (f1 f2 : Option Nat) (D1 D2 : List Quad) : Outcome :=
  if fails f1 D1 then .sourceError else if fails f2 D2 then .sinkError else .answer (iso deep sort h fuel D1 D2)

/-! ### termination of the loop: an executable sufficient condition -/

/-- During the next `k` rounds the number of colour classes of this side never decreases (`old` = the count of
the round before).  With XOR-combined digests this is *not* automatic: a node all of whose mentioning statements
pair up with equal hashes falls back to digest 0 and may merge with another such node.  When it holds on both
sides the loop stops within `|b2q1| + |b2q2| + 1` rounds (`refine_terminates`); without it an adversarial hash
function makes the loop run forever (`refine_diverges`). -/
def monoRun (h : List Ev → UInt64) (d : List Quad) (b2q : B2Q) : Nat → CMap → Nat → Bool
  | 0, _, _ => true
  | k + 1, m, old =>
    let m' := makeMap h d b2q m
    let c := (eqClasses m').length
    decide (old ≤ c) && monoRun h d b2q k m' c

/-- number of rounds the loop runs before it answers (`none` = not within `fuel`); diagnostics only -/
def roundsUsed (h : List Ev → UInt64) (d1 d2 : List Quad) (b1 b2 : B2Q) :
    Nat → CMap → CMap → Nat → Nat → Option Nat
  | 0, _, _, _, _ => none
  | fuel + 1, map1, map2, old1, old2 =>
    let map1' := makeMap h d1 b1 map1
    let map2' := makeMap h d2 b2 map2
    let e1 := eqClasses map1'
    let e2 := eqClasses map2'
    if e1.length == old1 && e2.length == old2 then some 1
    else if e1.length == map1'.length && e2.length == map2'.length then some 1
    else (roundsUsed h d1 d2 b1 b2 fuel map1' map2' e1.length e2.length).map (· + 1)

/-! ### a concrete hash (the driver's instance of `h`; *not* SipHash) -/

def mix (s : UInt64) (w : UInt64) : UInt64 :=
  let x := (s ^^^ w) * 0x100000001B3
  x ^^^ (x >>> 29)

def evWords : Ev → List UInt64
  | .t (.disc n) => [0xD1, n.toUInt64]
  | .t (.str s) => 0x51 :: (s.map (fun c => c.toNat.toUInt64) ++ [0xFF])
  | .t (.chr c) => [0xC4, c.toNat.toUInt64]
  | .col v => [0xC0, v]
  | .noGraph => [0x90]

def mixHash (evs : List Ev) : UInt64 :=
  (evs.flatMap evWords).foldl mix 0xCBF29CE484222325

end SophiaModel.Iso
