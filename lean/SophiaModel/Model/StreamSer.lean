/-
Model of the non-pretty ("streaming") mode of `TurtleSerializer` / `TrigSerializer`: `rio/src/serializer.rs`
(`rio_format_triples`, `rio_format_quads`, `convert_triple`) — the Sophia code in front of Rio's formatters.
A statement reaches the formatter iff `convert_triple` can build a Rio triple from it (strict RDF-star: subject IRI /
blank node / quoted triple, predicate IRI, object IRI / blank node / literal / quoted triple, recursively) and, for
quads, the graph name is absent, an IRI or a blank node; every other statement is silently skipped.  The text the
formatters then write is Rio's (third party) and is not modelled: the driver compares *which and how many*
statements are written, the harness checks the round trip against exactly the kept statements.
-/
import SophiaModel.Basic.Term

namespace SophiaModel.StreamSer
open SophiaModel

def isIri : Term → Bool
  | .iri _ => true
  | _ => false

mutual
/-- the `subject` match of `convert_triple` -/
def rioSubject : Term → Bool
  | .iri _ => true
  | .bnode _ => true
  | .triple s p o => rioSubject s && isIri p && rioObject o
  | _ => false
/-- the `object` match of `convert_triple` -/
def rioObject : Term → Bool
  | .iri _ => true
  | .bnode _ => true
  | .lit _ _ => true
  | .lang _ _ => true
  | .triple s p o => rioSubject s && isIri p && rioObject o
  | _ => false
end

/-- `convert_triple(t, Empty).head().is_some()` -/
def rioTriple (s p o : Term) : Bool := rioSubject s && isIri p && rioObject o

/-- the `graph_name` match of `rio_format_quads` -/
def rioGraph : Option Term → Bool
  | none => true
  | some (.iri _) => true
  | some (.bnode _) => true
  | _ => false

/-- `rio_format_triples`: the statements handed to `tf.format`, in stream order -/
def streamTriples (qs : List Quad) : List Quad := qs.filter (fun q => rioTriple q.s q.p q.o)

/-- `rio_format_quads` -/
def streamQuads (qs : List Quad) : List Quad := qs.filter (fun q => rioGraph q.g && rioTriple q.s q.p q.o)

end SophiaModel.StreamSer
