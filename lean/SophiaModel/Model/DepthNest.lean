/-
C16 — call depth of the functions of /repo that recurse on the NESTING of their input (quoted triples,
collections, operators / patterns / ORDER BY criteria of the query) and loop over everything else.

As in `Model/Depth.lean` every function is an instrumented copy: result (where the function has one
worth modelling) and the greatest number of simultaneously active calls of the functions of that
recursion.  The amount of data (characters of a literal, rows, named graphs, list items, nodes,
arcs of a node) enters every model as a list that the function folds over; the theorems in
`SophiaProofs/Props/C16.lean` bound the depth by the nesting alone, for lists of any length.
-/
import SophiaModel.Basic.Term
import SophiaModel.Basic.TermOrder

namespace SophiaModel.Depth

/-- nesting depth of quoted triples -/
def nesting : Term → Nat
  | .triple s p o => 1 + max (nesting s) (max (nesting p) (nesting o))
  | _ => 0

/-! ## `Term::cmp`, `Term::eq`, `Term::hash` (`api/src/term.rs`)

`cmp` on two quoted triples: `Term::cmp(&spo1[0], spo2[0]).then_with(|| Term::cmp(&spo1[1], spo2[1]))
.then_with(|| Term::cmp(&spo1[2], spo2[2]))`; every other pair of kinds is decided without a call. -/

def termCmpD (a b : Term) : Ordering × Nat :=
  match a, b with
  | .triple s1 p1 o1, .triple s2 p2 o2 =>
    let x := termCmpD s1 s2
    if x.1 != .eq then (x.1, x.2 + 1)
    else
      let y := termCmpD p1 p2
      if y.1 != .eq then (y.1, max x.2 y.2 + 1)
      else
        let z := termCmpD o1 o2
        (z.1, max x.2 (max y.2 z.2) + 1)
  | _, _ => (Term.termCmp a b, 1)

/-- `eq`: `self.triple().unwrap().eq(other.triple().unwrap())` compares the three components with
`Term::eq`, stopping at the first difference -/
def termEqD (a b : Term) : Bool × Nat :=
  match a, b with
  | .triple s1 p1 o1, .triple s2 p2 o2 =>
    let x := termEqD s1 s2
    if !x.1 then (false, x.2 + 1)
    else
      let y := termEqD p1 p2
      if !y.1 then (false, max x.2 y.2 + 1)
      else
        let z := termEqD o1 o2
        (z.1, max x.2 (max y.2 z.2) + 1)
  | _, _ => (Term.termEq a b, 1)

/-- `hash`: `t.s().hash(state); t.p().hash(state); t.o().hash(state)` -/
def termHashD : Term → List Term.HashEv × Nat
  | .triple s p o =>
    let x := termHashD s
    let y := termHashD p
    let z := termHashD o
    (.disc 3 :: (x.1 ++ y.1 ++ z.1), max x.2 (max y.2 z.2) + 1)
  | t => (Term.termHash t, 1)

/-! ## `nq` (`c14n/src/_cnq.rs`): canonical N-Quads of one term

The lexical form is escaped by a `for c in ….chars()` loop (no call per character); the datatype of
a literal and the components of a quoted triple are written by `nq` itself. -/

def xsdString : Str := "http://www.w3.org/2001/XMLSchema#string".toList

def hexDigit (n : Nat) : Char := if n < 10 then Char.ofNat (48 + n) else Char.ofNat (55 + n)

/-- the `match c` of the loop -/
def nqEsc (c : Char) : List Char :=
  if c == '"' then ['\\', '"'] else if c == '\\' then ['\\', '\\']
  else if c == '\n' then ['\\', 'n'] else if c == '\r' then ['\\', 'r']
  else if c == '\t' then ['\\', 't'] else if c.toNat == 8 then ['\\', 'b']
  else if c.toNat == 12 then ['\\', 'f'] else if c.toNat == 127 then "\\u007F".toList
  else if c.toNat ≤ 31 then ['\\', 'u', '0', '0', hexDigit (c.toNat / 16), hexDigit (c.toNat % 16)]
  else [c]

def nqW : Term → List Char × Nat
  | .iri s => ('<' :: s ++ ['>', ' '], 1)
  | .bnode s => ('_' :: ':' :: s ++ [' '], 1)
  | .var s => ('?' :: s ++ [' '], 1)
  | .lang lex tag => ('"' :: lex.flatMap nqEsc ++ ['"', '@'] ++ tag ++ [' '], 1)
  | .lit lex dt =>
    if dt == xsdString then ('"' :: lex.flatMap nqEsc ++ ['"', ' '], 1)
    else
      -- `nq(term.datatype().unwrap(), buffer); buffer.pop()`
      ('"' :: lex.flatMap nqEsc ++ ['"', '^', '^', '<'] ++ dt ++ ['>', ' '], 2)
  | .triple s p o =>
    let x := nqW s
    let y := nqW p
    let z := nqW o
    ("<< ".toList ++ x.1 ++ y.1 ++ z.1 ++ ">> ".toList, max x.2 (max y.2 z.2) + 1)

/-! ## `write_term` ⇄ `write_triple` (`turtle/src/serializer/nt.rs`)

`write_term` of a quoted triple calls `write_triple`, which calls `write_term` on the three
components: two calls per level of quoting.  `esc` stands for `quoted_string` (a loop). -/

def ntEsc (c : Char) : List Char :=
  if c == '\n' then ['\\', 'n'] else if c == '\r' then ['\\', 'r']
  else if c == '"' then ['\\', '"'] else if c == '\\' then ['\\', '\\'] else [c]

def ntWriteTerm : Term → List Char × Nat
  | .iri s => ('<' :: s ++ ['>'], 1)
  | .bnode s => ('_' :: ':' :: s, 1)
  | .var s => ('?' :: s, 1)
  | .lang lex tag => ('"' :: lex.flatMap ntEsc ++ ['"', '@'] ++ tag, 1)
  | .lit lex dt =>
    if dt == xsdString then ('"' :: lex.flatMap ntEsc ++ ['"'], 1)
    else ('"' :: lex.flatMap ntEsc ++ ['"', '^', '^', '<'] ++ dt ++ ['>'], 1)
  | .triple s p o =>
    let x := ntWriteTerm s
    let y := ntWriteTerm p
    let z := ntWriteTerm o
    -- write_term → write_triple → write_term
    ("<<".toList ++ x.1 ++ [' '] ++ y.1 ++ [' '] ++ z.1 ++ ">>".toList, max x.2 (max y.2 z.2) + 2)

/-! ## `cmp_bindings_with` and `order_by` (`sparql/src/exec.rs`)

`ev c b1 b2` is the comparison of the two bindings under ORDER BY criterion `c` (with the `desc`
flip); `o.then_with(|| cmp_bindings_with(b1, b2, rest, …))` goes on to the next criterion only on a
tie. -/

def cmpBindingsWith {B C : Type} (ev : C → B → B → Ordering) : List C → B → B → Ordering × Nat
  | [], _, _ => (.eq, 1)
  | c :: rest, b1, b2 =>
    match ev c b1 b2 with
    | .eq =>
      let r := cmpBindingsWith ev rest b1 b2
      (r.1, r.2 + 1)
    | o => (o, 1)

/-- `bindings.sort_unstable_by(|b1, b2| cmp_bindings_with(b1, b2, &criteria, …))`: whatever pairs the
sort compares, they are pairs of rows; the deepest comparison among ALL pairs bounds the sort's -/
def orderByDepth {B C : Type} (ev : C → B → B → Ordering) (crit : List C) (rows : List B) : Nat :=
  rows.foldl (fun d a => rows.foldl (fun d b => max d (cmpBindingsWith ev crit a b).2) d) 1

/-! ## `jsonify` (`jsonld/src/serializer/engine.rs`)

One entry per (graph, subject) pair, as `self.node` / `self.gs_id`.  A *root* call (`root = true`,
from `into_json`, once per node) renders the nodes of the named graph this node names with
`self.jsonify(*inode2, &self.node[*inode2], false)`; a call with `root = false` never calls
`jsonify` again. -/

structure JNode where
  /-- `node.is_empty()` -/
  empty : Bool
  /-- `g_id == " "` -/
  inDefault : Bool
  /-- list node or compound literal -/
  hidden : Bool
  /-- the `Node` objects under the key "@graph", if the key exists -/
  graph : Option (List Nat)
  deriving Repr, DecidableEq, Inhabited

/-- result: was a node object produced; depth -/
def jsonify (nodes : List JNode) (i : Nat) (root : Bool) : Bool × Nat :=
  let node := nodes.getD i default
  if node.empty then (false, 1)
  else if root && !node.inDefault then (false, 1)
  else if node.hidden then (false, 1)
  else if _h : root = true then
    match node.graph with
    | some ng => (true, 1 + (ng.map (fun j => (jsonify nodes j false).2)).foldl max 0)
    | none => (true, 1)
  else (true, 1)
termination_by (if root then 1 else 0)
decreasing_by simp_all

/-- `into_json`: `self.node.iter().enumerate().filter_map(|(inode, node)| self.jsonify(inode, node, true))` -/
def intoJsonDepth (nodes : List JNode) : Nat :=
  ((List.range nodes.length).map (fun i => (jsonify nodes i true).2)).foldl max 0

/-! ## `populate_list` ⇄ `convert_rdf_object` (`jsonld/src/serializer/engine.rs`)

A list item is a leaf (literal, IRI, non-list blank node) or itself a list node.  `populate_list`
LOOPS over the cells (the looped text of `Depth.populateListLoop`) and calls `convert_rdf_object`
on each `rdf:first`; `convert_rdf_object` calls `populate_list` for an item that is a list. -/

mutual
inductive LItem where
  | leaf
  | sub (cells : LItems)
inductive LItems where
  | nil
  | cons (i : LItem) (rest : LItems)
end

mutual
/-- `convert_rdf_object` -/
def convertD : LItem → Nat
  | .leaf => 1
  | .sub cells => 1 + populateD cells
/-- `populate_list`, one call for the whole list -/
def populateD : LItems → Nat
  | .nil => 1
  | .cons i rest => max (1 + convertD i) (populateD rest)
end

mutual
def LItem.nest : LItem → Nat
  | .leaf => 0
  | .sub cells => 1 + cells.nest
def LItems.nest : LItems → Nat
  | .nil => 0
  | .cons i rest => max i.nest rest.nest
end

def LItems.ofList : List LItem → LItems
  | [] => .nil
  | i :: is => .cons i (LItems.ofList is)

/-! ## `select` ⇄ `filter | union | graph | graph_rec | extend | order_by | project | distinct | slice | check_exists`
(`sparql/src/exec.rs`): one or two calls per operator of the QUERY; `graph_rec` loops over the graph
names of the DATASET.  `filter`, `extend` and `order_by` first walk their expression(s) with
`check_exists`, which calls itself on the sub-expressions (unary / binary directly, n-ary through
`try_for_each`) and `self.select(pattern, &[], None)` on the pattern of an `EXISTS`. -/

mutual
inductive Alg where
  | bgp
  | unsupported
  | filter (e : Expr) (inner : Alg)
  | union (l r : Alg)
  | graphConst (inner : Alg)
  | graphVar (inner : Alg)
  | extend (e : Expr) (inner : Alg)
  | orderBy (es : Exprs) (inner : Alg)
  | project (inner : Alg)
  | distinct (inner : Alg)
  | slice (inner : Alg)
/-- a query expression as `check_exists` sees it -/
inductive Expr where
  /-- `NamedNode | Literal | Variable | Bound` -/
  | leaf
  /-- `Exists(pattern)` -/
  | exists (pattern : Alg)
  /-- every other constructor: its sub-expressions -/
  | node (args : Exprs)
inductive Exprs where
  | nil
  | cons (e : Expr) (es : Exprs)
end

mutual
def Alg.height : Alg → Nat
  | .bgp | .unsupported => 0
  | .graphConst i | .graphVar i | .project i | .distinct i | .slice i => 1 + i.height
  | .filter e i | .extend e i => 1 + max e.height i.height
  | .orderBy es i => 1 + max es.height i.height
  | .union l r => 1 + max l.height r.height
def Expr.height : Expr → Nat
  | .leaf => 0
  | .exists p => 1 + p.height
  | .node args => 1 + args.height
def Exprs.height : Exprs → Nat
  | .nil => 0
  | .cons e es => max e.height es.height
end

mutual
/-- depth of `select(pattern)` (calls of the functions of this recursion) over a dataset with `g`
named graphs.  `graph` with an unbound variable: `self.select(inner, &[], binding)` for the
variables, then (if there is any graph name) `graph_rec`, whose loop calls `select(inner, …)` once
per name. -/
def selectD (g : Nat) : Alg → Nat
  | .bgp | .unsupported => 1
  | .project i | .distinct i | .slice i | .graphConst i => 2 + selectD g i
  -- select → filter → (check_exists(expression) ; select(inner))
  | .filter e i | .extend e i => 2 + max (checkD g e) (selectD g i)
  -- select → order_by → (`for oe in expression { self.check_exists(e)?; }` ; select(inner))
  | .orderBy es i => 2 + max (checkArgsD g es) (selectD g i)
  | .union l r => 2 + max (selectD g l) (selectD g r)
  | .graphVar i =>
    let vars := 2 + selectD g i
    if g = 0 then vars
    else max vars (3 + (List.range g).foldl (fun d _ => max d (selectD g i)) 0)
/-- `check_exists` -/
def checkD (g : Nat) : Expr → Nat
  | .leaf => 1
  | .exists p => 1 + selectD g p
  | .node args => 1 + checkArgsD g args
/-- the sub-expressions, one after the other -/
def checkArgsD (g : Nat) : Exprs → Nat
  | .nil => 0
  | .cons e es => max (checkD g e) (checkArgsD g es)
end

/-! ## the prettifier (`turtle/src/serializer/_pretty.rs`):
`write_term ⇄ write_bnode ⇄ write_properties ⇄ write_objects ⇄ write_object ⇄ write_node`

What `write_term` finds at a term position, after `build_labelled` / `build_subject_types` /
`build_lists` classified the blank nodes. -/

mutual
inductive PT where
  /-- IRI, literal, variable, labelled / root / undescribed blank node: no further call -/
  | atom
  /-- `<< s p o >>`: `write_term` on the three components -/
  | quoted (s p o : PT)
  /-- a blank node in `lists`: `( item … )`, `write_node(item)` per item -/
  | coll (items : PTs)
  /-- a `SubTree` blank node: `[ p o ; … ]`, `write_properties` -/
  | anon (arcs : PArcs)
inductive PTs where
  | nil
  | cons (t : PT) (ts : PTs)
/-- the arcs that `write_properties` loops over: predicate, object, is it one of the `rdf:type`
objects (written through `write_objects`), and the arcs of the annotation `{| … |}` of the triple
(empty = not annotated) -/
inductive PArcs where
  | nil
  | cons (p o : PT) (viaObjects : Bool) (annot : PArcs) (rest : PArcs)
end

mutual
/-- `write_term` -/
def wTerm : PT → Nat
  | .atom => 1
  | .quoted s p o => 1 + max (wTerm s) (max (wTerm p) (wTerm o))
  -- write_term → write_bnode → …
  | .coll items => 2 + wItems items
  | .anon arcs => 2 + wProps arcs
/-- the `for item in items` loop of `write_bnode`: write_node → write_term -/
def wItems : PTs → Nat
  | .nil => 0
  | .cons t ts => max (1 + wTerm t) (wItems ts)
/-- `write_properties` (one call; loops over the arcs) -/
def wProps : PArcs → Nat
  | .nil => 1
  | .cons p o viaObjects annot rest =>
    -- write_properties → write_term(p)
    let dp := 1 + wTerm p
    -- write_properties → [write_objects →] write_object → write_node → write_term(o)
    let dobj := (if viaObjects then 4 else 3) + wTerm o
    -- write_properties → [write_objects →] write_object → write_properties(annotation)
    let dann := match annot with
      | .nil => 0
      | a => (if viaObjects then 3 else 2) + wProps a
    max (max dp (max dobj dann)) (wProps rest)
end

/-! `nestAll`: nesting of everything the writer nests: quoted triples, collections, annotations AND
anonymous blank nodes -/
mutual
def PT.nestAll : PT → Nat
  | .atom => 0
  | .quoted s p o => 1 + max s.nestAll (max p.nestAll o.nestAll)
  | .coll items => 1 + items.nestAll
  | .anon arcs => 1 + arcs.nestAll
def PTs.nestAll : PTs → Nat
  | .nil => 0
  | .cons t ts => max t.nestAll ts.nestAll
def PArcs.nestAll : PArcs → Nat
  | .nil => 0
  | .cons p o _ annot rest =>
    let na := match annot with
      | .nil => 0
      | a => 1 + a.nestAll
    max (max p.nestAll (max o.nestAll na)) rest.nestAll
end

/-! `nestData`: nesting of the DATA in the sense of the property: quoted triples (annotations are
quoted triples) and collections; an anonymous blank node is a plain node of the graph and does not
count -/
mutual
def PT.nestData : PT → Nat
  | .atom => 0
  | .quoted s p o => 1 + max s.nestData (max p.nestData o.nestData)
  | .coll items => 1 + items.nestData
  | .anon arcs => arcs.nestData
def PTs.nestData : PTs → Nat
  | .nil => 0
  | .cons t ts => max t.nestData ts.nestData
def PArcs.nestData : PArcs → Nat
  | .nil => 0
  | .cons p o _ annot rest =>
    let na := match annot with
      | .nil => 0
      | a => 1 + a.nestData
    max (max p.nestData (max o.nestData na)) rest.nestData
end

/-! `anonNest`: nesting of anonymous blank nodes `[ … ]` alone (what `self.nesting` of the repaired
prettifier counts) -/
mutual
def PT.anonNest : PT → Nat
  | .atom => 0
  | .quoted s p o => max s.anonNest (max p.anonNest o.anonNest)
  | .coll items => items.anonNest
  | .anon arcs => 1 + arcs.anonNest
def PTs.anonNest : PTs → Nat
  | .nil => 0
  | .cons t ts => max t.anonNest ts.anonNest
def PArcs.anonNest : PArcs → Nat
  | .nil => 0
  | .cons p o _ annot rest => max (max p.anonNest (max o.anonNest annot.anonNest)) rest.anonNest
end

/-! ### the repaired prettifier (`MAX_BNODE_NESTING`, /repo da7f8f8)

`write_bnode` on a `SubTree` blank node with `self.nesting >= MAX_BNODE_NESTING` writes the node's
label (no further call) and defers its description to a tree of its own, written by `write_graph`
with `nesting = 0` again; otherwise `self.nesting += 1` around `write_properties`.  `cut c lvl t` is
the tree that `write_term` walks when entered with `self.nesting = lvl`: quoted triples, collections
and annotations pass the counter on unchanged. -/
mutual
def PT.cut (c : Nat) (lvl : Nat) : PT → PT
  | .atom => .atom
  | .quoted s p o => .quoted (s.cut c lvl) (p.cut c lvl) (o.cut c lvl)
  | .coll items => .coll (items.cut c lvl)
  | .anon arcs => if lvl ≥ c then .atom else .anon (arcs.cut c (lvl + 1))
def PTs.cut (c : Nat) (lvl : Nat) : PTs → PTs
  | .nil => .nil
  | .cons t ts => .cons (t.cut c lvl) (ts.cut c lvl)
def PArcs.cut (c : Nat) (lvl : Nat) : PArcs → PArcs
  | .nil => .nil
  | .cons p o v annot rest => .cons (p.cut c lvl) (o.cut c lvl) v (annot.cut c lvl) (rest.cut c lvl)
end

/-! every anonymous blank node of a tree, by its arcs: the candidates for being described in a tree
of their own by the repaired prettifier (`self.deferred`) -/
mutual
def PT.anons : PT → List PArcs
  | .atom => []
  | .quoted s p o => s.anons ++ (p.anons ++ o.anons)
  | .coll items => items.anons
  | .anon arcs => arcs :: arcs.anons
def PTs.anons : PTs → List PArcs
  | .nil => []
  | .cons t ts => t.anons ++ ts.anons
def PArcs.anons : PArcs → List PArcs
  | .nil => []
  | .cons p o _ annot rest => p.anons ++ (o.anons ++ (annot.anons ++ rest.anons))
end

def PTs.ofList : List PT → PTs
  | [] => .nil
  | t :: ts => .cons t (PTs.ofList ts)

/-- `x:s x:p _:b0 . _:b0 x:p _:b1 . … _:b(n-1) x:p "end"` as the writer nests it: `[ x:p [ x:p … ] ]` -/
def chainPT : Nat → PT
  | 0 => .atom
  | n + 1 => .anon (.cons .atom (chainPT n) false .nil .nil)

/-- `write_tree(root)`: `write_node(root)` then `write_properties(root)` — the calls below `write_graph` -/
def wTree (root : PT) (arcs : PArcs) : Nat := max (1 + wTerm root) (wProps arcs)

end SophiaModel.Depth
