/-
In-memory graphs / datasets of `inmem/src/{index,graph,dataset}.rs` (+ `_iter.rs`), and the
default trait methods of `api/src/{graph,dataset}.rs` they inherit.

* term index: `i2t` is a list (index = position), `t2i` is lookup by `Term::eq`
  (std `HashMap` with lawful keys: property C02);
* an ordered index (`BTreeSet<[I; n]>`) is a duplicate-free list of rows; `range lo..=hi` is the
  filter by the lexicographic bounds (std `BTreeSet` is trusted to implement exactly that);
* which index / bounds / iterator / output permutation each constant-pattern uses comes from the
  GENERATED arm tables (`Gen/IndexTable.lean`), so the theorems are about what the source says now.
-/
import SophiaModel.Model.Matcher

namespace SophiaModel.Store
open SophiaModel Term

abbrev Row := List Nat

/-! ### term index (`SimpleTermIndex<I>`) -/

/-- `get_index` -/
def getIndex (terms : List Term) (t : Term) : Option Nat :=
  terms.findIdx? (fun x => termEq x t)

/-- `ensure_index`: `none` = `TermIndexFullError`, raised before any change -/
def ensureIndex (max : Nat) (terms : List Term) (t : Term) : Option (List Term × Nat) :=
  match getIndex terms t with
  | some i => some (terms, i)
  | none => if terms.length ≥ max then none else some (terms ++ [t], terms.length)

/-- `get_graph_name`: index `max` is the default graph -/
def getName (max : Nat) (terms : List Term) (i : Nat) : GName :=
  if i = max then none else terms[i]?

/-- `get_graph_name_index` -/
def getNameIndex (max : Nat) (terms : List Term) (g : GName) : Option Nat :=
  match g with
  | none => some max
  | some t => getIndex terms t

/-! ### ordered sets of rows -/

def lexLe : Row → Row → Bool
  | [], _ => true
  | _ :: _, [] => false
  | a :: as, b :: bs => if a < b then true else if b < a then false else lexLe as bs

/-- `BTreeSet::range(lo..=hi)` -/
def range (lo hi : Row) (s : List Row) : List Row := s.filter (fun r => lexLe lo r && lexLe r hi)

/-- `BTreeSet::insert` -/
def oinsert (r : Row) (s : List Row) : List Row × Bool :=
  if s.contains r then (s, false) else (r :: s, true)

/-- `BTreeSet::remove` -/
def oremove (r : Row) (s : List Row) : List Row × Bool :=
  if s.contains r then (s.erase r, true) else (s, false)

/-! ### shapes and generated arm tables -/

/-- canonical positions: datasets `[g, s, p, o]` (n = 4), graphs `[s, p, o]` (n = 3) -/
structure Shape where
  n : Nat
  /-- `perms[k][j]` = canonical position stored at layout position `j` of index `k`
      (index 0 is the primary one: gspo / spo) -/
  perms : List (List Nat)
  /-- order in which `insert`/`remove` look the terms up (canonical positions) -/
  lookupOrder : List Nat
  deriving Repr, Inhabited

inductive Bnd where
  | pos (c : Nat)      -- the index of the constant at canonical position `c`
  | zero               -- `Index::ZERO`
  | max                -- `Index::MAX`
  deriving Repr, DecidableEq, Inhabited

inductive IterKind where
  | once                -- `contains` + `once`
  | rangeFilter         -- `.range(r).map(get_term(q[last])).filter(m.matches)`
  | cached (k : Nat)    -- matching iterator caching the first `k-1` of its `k` matched positions
  deriving Repr, DecidableEq, Inhabited

/-- one arm of `quads_matching` / `triples_matching` -/
structure Arm where
  /-- the arm's pattern over canonical positions: `some true` = the matcher has a constant and
      the arm binds it, `some false` = it has none, `none` = not consulted by this arm -/
  bound : List (Option Bool)
  index : Nat
  lo : List Bnd
  hi : List Bnd
  kind : IterKind
  /-- canonical positions of the matchers handed to the iterator, in layout order -/
  matchers : List Nat
  /-- the `to_gspo` closure: `out[c]` = layout position that becomes canonical position `c` -/
  out : List Nat
  deriving Repr, DecidableEq, Inhabited

structure St where
  shape : Shape
  max : Nat
  terms : List Term
  idx : List (List Row)
  deriving Repr, Inhabited

/-- what the extractor reads off one store type -/
structure StoreDesc where
  n : Nat
  indexNames : List String
  insertLayouts : List (List Nat)
  removeLayouts : List (List Nat)
  removeNames : List String
  insertOrder : List Nat
  removeOrder : List Nat
  /-- index iterated by `quads()` / `triples()` -/
  iterIndex : Nat
  arms : List Arm
  deriving Repr, Inhabited

def StoreDesc.shape (d : StoreDesc) : Shape :=
  { n := d.n, perms := d.insertLayouts, lookupOrder := d.insertOrder }

def layout (perm : List Nat) (c : Row) : Row := perm.map (fun i => c.getD i 0)

def St.new (shape : Shape) (max : Nat) : St :=
  { shape, max, terms := [], idx := shape.perms.map (fun _ => []) }

/-! ### quads as canonical rows of names -/

/-- canonical list of names of a quad: datasets `[g, s, p, o]`, graphs `[s, p, o]` -/
def quadNames (n : Nat) (q : Quad) : List GName :=
  if n = 4 then [q.g, some q.s, some q.p, some q.o] else [some q.s, some q.p, some q.o]

def quadOfNames (n : Nat) (ns : List GName) : Option Quad :=
  if n = 4 then
    match ns with
    | [g, some s, some p, some o] => some ⟨s, p, o, g⟩
    | _ => none
  else
    match ns with
    | [some s, some p, some o] => some ⟨s, p, o, none⟩
    | _ => none

/-- is canonical position `c` the graph-name position? -/
def isGPos (n c : Nat) : Bool := n = 4 && c = 0

/-! ### mutation -/

/-- `ensure_index` for every term in lookup order (graph name `None` ↦ `max` without lookup);
returns the new term list and the canonical row, or `none` (index full) with the term list as
changed so far -/
def ensureAll (max : Nat) (n : Nat) (names : List GName) :
    List Nat → List Term → List (Nat × Nat) → List Term × Option (List (Nat × Nat))
  | [], terms, acc => (terms, some acc)
  | c :: cs, terms, acc =>
    match names.getD c none with
    | none => ensureAll max n names cs terms ((c, max) :: acc)
    | some t =>
      match ensureIndex max terms t with
      | none => (terms, none)
      | some (terms', i) => ensureAll max n names cs terms' ((c, i) :: acc)

def rowOfAssoc (n : Nat) (a : List (Nat × Nat)) : Row :=
  (List.range n).map (fun c => (a.lookup c).getD 0)

/-- `MutableDataset::insert` / `MutableGraph::insert`: `none` = index full -/
def insert (s : St) (q : Quad) : St × Option Bool :=
  let names := quadNames s.shape.n q
  match ensureAll s.max s.shape.n names s.shape.lookupOrder s.terms [] with
  | (terms, none) => ({ s with terms }, none)
  | (terms, some a) =>
    let c := rowOfAssoc s.shape.n a
    match s.idx, s.shape.perms with
    | prim :: rest, p0 :: ps =>
      let (prim', changed) := oinsert (layout p0 c) prim
      if changed then
        -- secondaries are touched iff the primary changed
        let rest' := (rest.zip ps).map (fun (ix, p) => (oinsert (layout p c) ix).1)
        ({ s with terms, idx := prim' :: rest' }, some true)
      else ({ s with terms }, some false)
    | _, _ => ({ s with terms }, some false)

/-- `get_index` for every term in lookup order; `none` = some term unknown -/
def lookupAll (max : Nat) (terms : List Term) (names : List GName) :
    List Nat → List (Nat × Nat) → Option (List (Nat × Nat))
  | [], acc => some acc
  | c :: cs, acc =>
    match getNameIndex max terms (names.getD c none) with
    | none => none
    | some i => lookupAll max terms names cs ((c, i) :: acc)

/-- `remove` -/
def remove (s : St) (q : Quad) : St × Bool :=
  let names := quadNames s.shape.n q
  match lookupAll s.max s.terms names s.shape.lookupOrder [] with
  | none => (s, false)
  | some a =>
    let c := rowOfAssoc s.shape.n a
    match s.idx, s.shape.perms with
    | prim :: rest, p0 :: ps =>
      let (prim', changed) := oremove (layout p0 c) prim
      if changed then
        let rest' := (rest.zip ps).map (fun (ix, p) => (oremove (layout p c) ix).1)
        ({ s with idx := prim' :: rest' }, true)
      else (s, false)
    | _, _ => (s, false)

/-! ### scans -/

/-- matcher at canonical position `c` as a graph-name matcher (`sm.gn()` in the source) -/
structure Pat where
  ms : List GM       -- one per canonical position
  deriving Inhabited

def Pat.at (p : Pat) (c : Nat) : GM := p.ms.getD c .any

/-- one row through a matching iterator of `_iter.rs`: per matched position a cached
`(index, flag)`; a position's matcher is re-evaluated only when its index differs from the cached
one, except the LAST position, which is always re-evaluated (`uninit` + unconditional `update`);
the walk stops at the first failing flag (`return self.next()`). -/
def stepRow (name : Nat → GName) (r : Row) (skip : Nat) :
    List GM → Nat → List (Nat × Bool) → List (Nat × Bool) × Bool
  | [], _, cache => (cache, true)
  | m :: rest, j, cache =>
    let i := r.getD (skip + j) 0
    let c := cache.getD j (0, true)
    let c' := if rest.isEmpty || i != c.1 then (i, m.matches (name i)) else c
    let cache' := cache.set j c'
    if c'.2 then stepRow name r skip rest (j + 1) cache' else (cache', false)

/-- `new`: every position but the last is evaluated on the first row; the last is `uninit` -/
def initCache (name : Nat → GName) (first : Row) (skip : Nat) : List GM → Nat → List (Nat × Bool)
  | [], _ => []
  | m :: rest, j =>
    let i := first.getD (skip + j) 0
    (if rest.isEmpty then (i, true) else (i, m.matches (name i))) :: initCache name first skip rest (j + 1)

def scanRows (name : Nat → GName) (ms : List GM) (skip : Nat) :
    List Row → List (Nat × Bool) → List Row
  | [], _ => []
  | r :: rs, cache =>
    let (cache', ok) := stepRow name r skip ms 0 cache
    if ok then r :: scanRows name ms skip rs cache' else scanRows name ms skip rs cache'

/-- `XxxMatchingIterator::boxed(...)`: `ms` = matchers in layout order for the last `ms.length`
layout positions. Returns the rows that pass. -/
def cachedScan (max : Nat) (terms : List Term) (ms : List GM) (skip : Nat) (rows : List Row) : List Row :=
  match rows with
  | [] => []
  | first :: _ => scanRows (getName max terms) ms skip rows (initCache (getName max terms) first skip ms 0)

/-- look up the constants the arm binds: `none` = some constant term is unknown ⇒ empty result -/
def resolveConsts (s : St) (p : Pat) (bound : List (Option Bool)) : Option (List (Option Nat)) :=
  (bound.zipIdx).mapM (fun (b, c) =>
    if b == some true then
      match (p.at c).constant with
      | none => some none      -- cannot happen: the arm was selected because the constant exists
      | some g =>
        match getNameIndex s.max s.terms g with
        | none => none
        | some i => some (some i)
    else some none)

/-- does the arm's pattern fit the matchers' `constant()`s? -/
def armFits (bound : List (Option Bool)) (has : List Bool) : Bool :=
  (bound.zip has).all (fun (b, h) => match b with
    | none => true
    | some x => x == h)

def bndVal (max : Nat) (consts : List (Option Nat)) : Bnd → Nat
  | .pos c => (consts.getD c none).getD 0
  | .zero => 0
  | .max => max

/-- canonical row of a layout row through the arm's `out` closure -/
def toCanon (out : List Nat) (r : Row) : Row := out.map (fun j => r.getD j 0)

def namesOfRow (s : St) (c : Row) : List GName :=
  (List.range s.shape.n).map (fun pos =>
    let i := c.getD pos 0
    if isGPos s.shape.n pos then getName s.max s.terms i else s.terms[i]?)

def runArm (s : St) (p : Pat) (arm : Arm) (consts : List (Option Nat)) : List Quad :=
  let ix := s.idx.getD arm.index []
  let lo := arm.lo.map (bndVal s.max consts)
  let hi := arm.hi.map (bndVal s.max consts)
  let rows : List Row :=
    match arm.kind with
    | .once => if ix.contains lo then [lo] else []
    | .rangeFilter =>
      (range lo hi ix).filter (fun r =>
        let i := r.getD (s.shape.n - 1) 0
        match arm.matchers with
        -- plain `TermMatcher::matches` on `get_term` for s/p/o, `GraphNameMatcher` on `get_graph_name` for g
        | [c] => (p.at c).matches (if isGPos s.shape.n c then getName s.max s.terms i else s.terms[i]?)
        | _ => true)
    | .cached k => cachedScan s.max s.terms (arm.matchers.map p.at) (s.shape.n - k) (range lo hi ix)
  (rows.map (toCanon arm.out)).filterMap (fun c => quadOfNames s.shape.n (namesOfRow s c))

/-- `quads_matching` / `triples_matching` driven by the generated arm table -/
def quadsMatching (arms : List Arm) (s : St) (p : Pat) : List Quad :=
  let has := (List.range s.shape.n).map (fun c => (p.at c).constant.isSome)
  match arms.find? (fun a => armFits a.bound has) with
  | none => []     -- unreachable for a complete table (obligation `tableComplete`)
  | some arm =>
    match resolveConsts s p arm.bound with
    | none => []
    | some consts => runArm s p arm consts

/-- `quads()` / `triples()`: iteration over the primary index -/
def quads (s : St) : List Quad :=
  ((s.idx.getD 0 []).filterMap (fun c => quadOfNames s.shape.n (namesOfRow s c)))

/-! ### default trait methods (`api/src/dataset.rs`, `api/src/graph.rs`) -/

def exactPat (n : Nat) (q : Quad) : Pat :=
  ⟨((quadNames n q).zipIdx).map (fun (g, c) =>
    if isGPos n c then GM.arr [g] else GM.gn (TM.arr g.toList))⟩

/-- `contains` = `quads_matching([s], [p], [o], [g]).next().is_some()` -/
def contains (arms : List Arm) (s : St) (q : Quad) : Bool :=
  !(quadsMatching arms s (exactPat s.shape.n q)).isEmpty

/-- `insert_all`: counts effective insertions; stops at the first error -/
def insertAll (s : St) : List Quad → Nat → St × Option Nat
  | [], c => (s, some c)
  | q :: qs, c =>
    match insert s q with
    | (s', none) => (s', none)
    | (s', some b) => insertAll s' qs (if b then c + 1 else c)

def removeAll (s : St) : List Quad → Nat → St × Nat
  | [], c => (s, c)
  | q :: qs, c =>
    let (s', b) := remove s q
    removeAll s' qs (if b then c + 1 else c)

/-- `remove_matching`: collect matches first, then `remove_all` -/
def removeMatching (arms : List Arm) (s : St) (p : Pat) : St × Nat :=
  removeAll s (quadsMatching arms s p) 0

def quadMatched (n : Nat) (p : Pat) (q : Quad) : Bool :=
  ((quadNames n q).zipIdx).all (fun (g, c) => (p.at c).matches g)

/-- `retain_matching`: collect the non-matching quads from `quads()`, then `remove_all` -/
def retainMatching (s : St) (p : Pat) : St :=
  (removeAll s ((quads s).filter (fun q => !quadMatched s.shape.n p q)) 0).1

/-- atoms (`Term::to_atoms`) and constituents (`Term::to_constituents`) -/
def atoms : Term → List Term
  | .triple s p o => atoms s ++ atoms p ++ atoms o
  | t => [t]

def constituents : Term → List Term
  | .triple s p o => .triple s p o :: (constituents s ++ constituents p ++ constituents o)
  | t => [t]

def spog (q : Quad) : List Term := [q.s, q.p, q.o] ++ q.g.toList

/-! ### the specification: a plain list of quads without `quadEq`-duplicates -/

def quadEq (a b : Quad) : Bool :=
  termEq a.s b.s && termEq a.p b.p && termEq a.o b.o && gnameEq a.g b.g

namespace Spec
def insert (d : List Quad) (q : Quad) : List Quad × Bool :=
  if d.any (quadEq · q) then (d, false) else (d ++ [q], true)
def remove (d : List Quad) (q : Quad) : List Quad × Bool :=
  if d.any (quadEq · q) then (d.filter (fun x => !quadEq x q), true) else (d, false)
def matching (n : Nat) (d : List Quad) (p : Pat) : List Quad := d.filter (quadMatched n p)
end Spec

end SophiaModel.Store
