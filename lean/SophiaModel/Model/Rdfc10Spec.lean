/-
RDF Dataset Canonicalization, RDFC-1.0 — W3C Recommendation 21 May 2024 — transcribed from the
text (no network: from memory of the Recommendation; points of doubt are listed at the end and
resolved so that this model demands LESS).  One definition per numbered step; section numbers
refer to the Recommendation.  Shares with `Rdfc10.lean` (the model of the implementation) only the
term type, the hash parameter `H` and the canonical N-Quads term rendering `Cnq.nqTerm`.

Data structures are deliberately different from the implementation's: maps are association lists
in *insertion order*; "code point ordered by …" is an explicit sort; "for each permutation" uses
the textbook recursive enumeration (the Recommendation fixes no order).
-/
import SophiaModel.Model.Cnq

namespace SophiaModel.Rdfc10Spec
open SophiaModel

/-! ### deviations (NOT part of the Recommendation)

The functions below take a `Deviations` argument; the Recommendation is `Deviations.none`.
The two switches reproduce, inside this transcription, two ways an implementation can differ (the
first is what rdfc10.rs does, the second what it did before /repo commit 33fee4b), so that a
divergence can be *attributed* (tools/propcfg/C06.py) and so that the one place where my reading of
the text is not certain can be demanded less strictly:
 * `dupRefs`: step 2.1 adds a reference to Q once per *occurrence* of a blank node in Q (a quad
   `_:a <p> _:a` is then listed twice under `_:a`) — the other reading of "for each blank node that
   is a component of Q"; the driver accepts either reading;
 * `lengthOnlySkip`: steps 5.4.4.3 / 5.4.5.5 skip as soon as the path is *longer* than the chosen
   path (the former `rdfc10.rs::smaller_path`), instead of "at least as long AND greater".
-/

structure Deviations where
  dupRefs : Bool
  lengthOnlySkip : Bool
  deriving Repr, DecidableEq

def Deviations.none : Deviations := ⟨false, false⟩

/-! ### code point order -/

def cpLess : Str → Str → Bool
  | _, [] => false
  | [], _ :: _ => true
  | a :: as, b :: bs => a.toNat < b.toNat || (a.toNat == b.toNat && cpLess as bs)

def cpLeq (a b : Str) : Bool := !cpLess b a

/-- insertion into a code-point-ordered list of keyed items (stable) -/
def insertBy {α : Type} (key : α → Str) (x : α) : List α → List α
  | [] => [x]
  | y :: ys => if cpLeq (key x) (key y) then x :: y :: ys else y :: insertBy key x ys

def sortBy {α : Type} (key : α → Str) (l : List α) : List α := l.foldr (insertBy key) []

/-! ### association lists in insertion order -/

def lookup {β : Type} (k : Str) : List (Str × β) → Option β
  | [] => none
  | (k', v) :: r => if k = k' then some v else lookup k r

/-- append `x` to the list stored under `k`, creating the entry if necessary -/
def addTo {β : Type} (k : Str) (x : β) : List (Str × List β) → List (Str × List β)
  | [] => [(k, [x])]
  | (k', v) :: r => if k = k' then (k', v ++ [x]) :: r else (k', v) :: addTo k x r

/-! ### 4.2 canonicalization state, 4.5 Issue Identifier -/

/-- identifier issuer: prefix, counter, issued identifiers map (ordered by insertion) -/
structure IdIssuer where
  pfx : Str
  counter : Nat
  issued : List (Str × Str)

def IdIssuer.fresh (pfx : Str) : IdIssuer := ⟨pfx, 0, []⟩

/-- 4.5.2 Issue Identifier: 1 existing? return it; 2 prefix ‖ counter; 3 record; 4 increment; 5 return -/
def issueId (i : IdIssuer) (existing : Str) : Str × IdIssuer :=
  match lookup existing i.issued with
  | some id => (id, i)
  | none =>
    let id := i.pfx ++ (toString i.counter).toList
    (id, ⟨i.pfx, i.counter + 1, i.issued ++ [(existing, id)]⟩)

structure State where
  bnodeToQuads : List (Str × List Quad)
  hashToBnodes : List (Str × List Str)
  canonicalIssuer : IdIssuer

/-! ### canonical N-Quads (RDFC-1.0 §5 / N-Quads canonical form) -/

def hexDigitUpper (n : Nat) : Char := if n < 10 then Char.ofNat (48 + n) else Char.ofNat (55 + n)

/-- UCHAR `\uXXXX` with uppercase HEX -/
def uchar4 (n : Nat) : Str :=
  ['\\', 'u', hexDigitUpper (n / 4096 % 16), hexDigitUpper (n / 256 % 16), hexDigitUpper (n / 16 % 16), hexDigitUpper (n % 16)]

/-- one character of a literal's lexical form in canonical N-Quads: BS HT LF FF CR `"` `\` use
ECHAR; the other characters of U+0000–U+001F and DEL use UCHAR `\uXXXX`; everything else is
written natively.  (The Recommendation also wants UCHAR for characters outside XML 1.1 `Char`,
i.e. U+FFFE / U+FFFF among scalar values; that clause is deliberately NOT demanded here.)
`SophiaProofs.C06.escapes_as_specified` proves that the table regenerated from `_cnq.rs` is this function. -/
def escapeChar (c : Char) : Str :=
  let n := c.toNat
  if n = 0x08 then ['\\', 'b']
  else if n = 0x09 then ['\\', 't']
  else if n = 0x0A then ['\\', 'n']
  else if n = 0x0C then ['\\', 'f']
  else if n = 0x0D then ['\\', 'r']
  else if n = 0x22 then ['\\', '"']
  else if n = 0x5C then ['\\', '\\']
  else if n ≤ 0x1F ∨ n = 0x7F then uchar4 n
  else [c]

def quadTerms (q : Quad) : List Term := [q.s, q.p, q.o] ++ (match q.g with | some g => [g] | none => [])

/-- `s p o g .` + LF, single spaces, terms rendered by `f` -/
def nquad (f : Term → Str) (q : Quad) : Str :=
  ((quadTerms q).map (fun t => f t ++ [' '])).flatten ++ ['.', '\n']

/-! ### 4.6 Hash First Degree Quads -/

def blankLabel : Term → Option Str | .bnode b => some b | _ => none

/-- 4.6.3 step 3.1: blank nodes serialised as `_:a` (the reference) or `_:z` (any other) -/
def firstDegreeTerm (ref : Str) (t : Term) : Str :=
  match blankLabel t with
  | some b => if b = ref then "_:a".toList else "_:z".toList
  | none => Cnq.nqTerm t

/-- 4.6.3: 1 nquads := []; 2 quads of the reference; 3 serialise each; 4 sort in code point order;
5 hash the concatenation -/
def hashFirstDegreeQuads (H : Str → Str) (st : State) (ref : Str) : Str :=
  let quads := (lookup ref st.bnodeToQuads).getD []
  let nquads := quads.map (nquad (firstDegreeTerm ref))
  H (sortBy id nquads).flatten

/-! ### 4.7 Hash Related Blank Node -/

/-- 4.7.3: input := position; if position ≠ g append `<` predicate `>`; append `_:` + the canonical
identifier if issued, else `_:` + the identifier issued by `issuer` if issued, else the first
degree hash of `related`; return the hash of input -/
def hashRelatedBlankNode (H : Str → Str) (st : State) (related : Str) (q : Quad) (issuer : IdIssuer)
    (position : Char) : Str :=
  let input := [position]
  let input := if position ≠ 'g' then
      input ++ ['<'] ++ (match q.p with | .iri p => p | _ => []) ++ ['>'] else input
  let input := match lookup related st.canonicalIssuer.issued with
    | some c => input ++ "_:".toList ++ c
    | none => match lookup related issuer.issued with
      | some t => input ++ "_:".toList ++ t
      | none => input ++ hashFirstDegreeQuads H st related
  H input

/-! ### 4.8 Hash N-Degree Quads -/

/-- all permutations (textbook: every element in turn as head) -/
def pickEach {α : Type} : List α → List (α × List α)
  | [] => []
  | x :: xs => (x, xs) :: (pickEach xs).map (fun p => (p.1, x :: p.2))

def permutationsAux {α : Type} : Nat → List α → List (List α)
  | 0, _ => [[]]
  | n + 1, l => if l.isEmpty then [[]] else
    (pickEach l).flatMap (fun p => (permutationsAux n p.2).map (p.1 :: ·))

def permutations {α : Type} (l : List α) : List (List α) := permutationsAux l.length l

/-- components in which a related blank node may occur, with their position letters (step 3.1) -/
def relatedPositions (q : Quad) : List (Term × Char) :=
  [(q.s, 's'), (q.o, 'o')] ++ (match q.g with | some g => [(g, 'g')] | none => [])

/-- steps 1–3: Hn, related hash → blank node list -/
def relatedHashes (H : Str → Str) (st : State) (identifier : Str) (issuer : IdIssuer) : List (Str × List Str) :=
  let quads := (lookup identifier st.bnodeToQuads).getD []
  quads.foldl (fun hn q =>
    (relatedPositions q).foldl (fun hn cp =>
      match blankLabel cp.1 with
      | some b => if b = identifier then hn
                  else addTo (hashRelatedBlankNode H st b q issuer cp.2) b hn     -- 3.1.1, 3.1.2
      | none => hn) hn) []

/-- 5.4.4.3 / 5.4.5.5: "chosen path is not empty and the length of path is greater than or equal
to the length of chosen path and path is greater than chosen path when considering code point
order" -/
def skipRule (dv : Deviations) (chosen path : Str) : Bool :=
  if dv.lengthOnlySkip then
    !chosen.isEmpty && (chosen.length < path.length || (chosen.length == path.length && cpLess chosen path))
  else
    !chosen.isEmpty && path.length ≥ chosen.length && cpLess chosen path

/-- 5.4.4: for each related in p (5.4.4.1 canonical id, 5.4.4.2 temporary id + recursion list,
5.4.4.3 skip test after every element); `none` = skip to the next permutation -/
def step544 (dv : Deviations) (st : State) (chosen : Str) : List Str → IdIssuer × Str × List Str → Option (IdIssuer × Str × List Str)
  | [], acc => some acc
  | related :: rest, (issuerCopy, path, recursionList) =>
    let (issuerCopy, path, recursionList) :=
      match lookup related st.canonicalIssuer.issued with
      | some c => (issuerCopy, path ++ "_:".toList ++ c, recursionList)                 -- 5.4.4.1
      | none =>
        let recursionList := if (lookup related issuerCopy.issued).isNone                -- 5.4.4.2.1
          then recursionList ++ [related] else recursionList
        let (id, issuerCopy) := issueId issuerCopy related                               -- 5.4.4.2.2
        (issuerCopy, path ++ "_:".toList ++ id, recursionList)
    if skipRule dv chosen path then none                                                 -- 5.4.4.3
    else step544 dv st chosen rest (issuerCopy, path, recursionList)

/-- 5.4.5: for each related in the recursion list -/
def step545 (dv : Deviations) (recur : Str → IdIssuer → Option (Str × IdIssuer)) (chosen : Str) :
    List Str → IdIssuer × Str → Option (Option (IdIssuer × Str))
  | [], acc => some (some acc)
  | related :: rest, (issuerCopy, path) =>
    match recur related issuerCopy with                                                  -- 5.4.5.1
    | none => none
    | some (hash, resultIssuer) =>
      let (id, _) := issueId issuerCopy related                                          -- 5.4.5.2
      let path := path ++ "_:".toList ++ id ++ ['<'] ++ hash ++ ['>']                    -- 5.4.5.3
      let issuerCopy := resultIssuer                                                     -- 5.4.5.4
      if skipRule dv chosen path then some none                                          -- 5.4.5.5
      else step545 dv recur chosen rest (issuerCopy, path)

/-- 5.4 for one permutation; state = (chosen path, chosen issuer); outer `none` = out of fuel -/
def step54 (dv : Deviations) (st : State) (recur : Str → IdIssuer → Option (Str × IdIssuer)) (issuer : IdIssuer)
    (chosen : Str × Option IdIssuer) (p : List Str) : Option (Str × Option IdIssuer) :=
  match step544 dv st chosen.1 p (issuer, [], []) with                 -- 5.4.1–5.4.4 (issuer copy, path, recursion list)
  | none => some chosen
  | some (issuerCopy, path, recursionList) =>
    match step545 dv recur chosen.1 recursionList (issuerCopy, path) with
    | none => none
    | some none => some chosen
    | some (some (issuerCopy, path)) =>
      if chosen.1.isEmpty || cpLess path chosen.1 then some (path, some issuerCopy)     -- 5.4.6
      else some chosen

def foldOpt {σ α : Type} (f : σ → α → Option σ) : σ → List α → Option σ
  | s, [] => some s
  | s, x :: xs => match f s x with | none => none | some s' => foldOpt f s' xs

/-- 4.8.3; `none` only when the recursion fuel runs out -/
def hashNDegreeQuads (dv : Deviations) (H : Str → Str) (st : State) : Nat → Str → IdIssuer → Option (Str × IdIssuer)
  | 0, _, _ => none
  | fuel + 1, identifier, issuer =>
    let hn := relatedHashes H st identifier issuer                                         -- 1–3
    let r := foldOpt (fun (acc : Str × IdIssuer) (e : Str × List Str) =>                  -- 5, ordered by hash
        let dataToHash := acc.1 ++ e.1                                                     -- 5.1
        match foldOpt (step54 dv st (hashNDegreeQuads dv H st fuel) acc.2) ([], none) (permutations e.2) with  -- 5.2–5.4
        | none => none
        | some (chosenPath, chosenIssuer) =>
          some (dataToHash ++ chosenPath, chosenIssuer.getD acc.2))                        -- 5.5, 5.6
      ([], issuer) (sortBy (·.1) hn)
    r.map (fun (d, i) => (H d, i))                                                         -- 6

/-! ### 4.4 Canonicalization Algorithm -/

def addOnce {α : Type} [DecidableEq α] (x : α) (l : List α) : List α := if x ∈ l then l else l ++ [x]

/-- the distinct blank nodes that are components of a quad (subject, object, graph name) -/
def blankNodesOf (q : Quad) : List Str :=
  ((relatedPositions q).filterMap (fun cp => blankLabel cp.1)).foldl (fun acc b => addOnce b acc) []

/-- step 2: for every quad Q, for each blank node that is a component of Q, add a reference to Q -/
def step2 (dv : Deviations) (dataset : List Quad) : List (Str × List Quad) :=
  dataset.foldl (fun m q =>
    (if dv.dupRefs then (relatedPositions q).filterMap (fun cp => blankLabel cp.1) else blankNodesOf q).foldl
      (fun m b => addTo b q m) m) []

/-- step 3: for each blank node n: hash first degree, append n under that hash -/
def step3 (H : Str → Str) (st : State) : State :=
  st.bnodeToQuads.foldl (fun st e =>
    { st with hashToBnodes := addTo (hashFirstDegreeQuads H st e.1) e.1 st.hashToBnodes }) st

/-- step 4: in code point order of the hash, entries with exactly one identifier: issue a canonical
identifier and remove the entry -/
def step4 (st : State) : State :=
  (sortBy (·.1) st.hashToBnodes).foldl (fun st e =>
    match e.2 with
    | [identifier] =>
      { st with canonicalIssuer := (issueId st.canonicalIssuer identifier).2,
                hashToBnodes := st.hashToBnodes.filter (fun x => x.1 ≠ e.1) }
    | _ => st) st

/-- step 5.2 for one identifier list: the hash path list -/
def step52 (dv : Deviations) (H : Str → Str) (st : State) (fuel : Nat) : List Str → Option (List (Str × IdIssuer))
  | [] => some []
  | n :: rest =>
    if (lookup n st.canonicalIssuer.issued).isSome then step52 dv H st fuel rest            -- 5.2.1
    else
      let temporaryIssuer := (issueId (IdIssuer.fresh ['b']) n).2                          -- 5.2.2, 5.2.3
      match hashNDegreeQuads dv H st fuel n temporaryIssuer with                              -- 5.2.4
      | none => none
      | some result => (step52 dv H st fuel rest).map (result :: ·)

/-- step 5.3: results ordered by hash; every identifier issued by the result's issuer gets a
canonical identifier, in issue order -/
def step53 (st : State) (hashPathList : List (Str × IdIssuer)) : State :=
  (sortBy (·.1) hashPathList).foldl (fun st result =>
    result.2.issued.foldl (fun st e =>
      { st with canonicalIssuer := (issueId st.canonicalIssuer e.1).2 }) st) st

/-- step 5 -/
def step5 (dv : Deviations) (H : Str → Str) (fuel : Nat) (st : State) : Option State :=
  foldOpt (fun st e => (step52 dv H st fuel e.2).map (step53 st)) st (sortBy (·.1) st.hashToBnodes)

/-- step 6: relabel -/
def relabelTerm (issued : List (Str × Str)) (t : Term) : Term :=
  match blankLabel t with
  | some b => match lookup b issued with | some c => .bnode c | none => t
  | none => t

def relabelQuad (issued : List (Str × Str)) (q : Quad) : Quad :=
  ⟨relabelTerm issued q.s, q.p, relabelTerm issued q.o, q.g.map (relabelTerm issued)⟩

/-- the input is an RDF dataset: predicates are IRIs; subjects IRIs or blank nodes; objects IRIs, blank
nodes or literals; graph names IRIs or blank nodes.  (Anything else is outside the Recommendation;
the models then say nothing.) -/
def isRdfQuad (q : Quad) : Bool :=
  (match q.p with | .iri _ => true | _ => false) &&
  (match q.s with | .iri _ | .bnode _ => true | _ => false) &&
  (match q.o with | .iri _ | .bnode _ | .lit _ _ | .lang _ _ => true | _ => false) &&
  (match q.g with | none | some (.iri _) | some (.bnode _) => true | _ => false)

/-- 4.4.3 steps 1–6: the issued identifiers map and the relabelled dataset -/
def canonicalize (dv : Deviations) (H : Str → Str) (dataset : List Quad) : Option (List (Str × Str) × List Quad) :=
  if !dataset.all isRdfQuad then none else
  let st : State := ⟨step2 dv dataset, [], IdIssuer.fresh "c14n".toList⟩                      -- 1, 2
  let st := step3 H st                                                                      -- 3
  let st := step4 st                                                                        -- 4
  match step5 dv H (st.bnodeToQuads.length + 2) st with                                        -- 5
  | none => none
  | some st => some (st.canonicalIssuer.issued, dataset.map (relabelQuad st.canonicalIssuer.issued))  -- 6

/-- serialised canonical form: canonical N-Quads lines in code point order -/
def canonicalNQuadsWith (dv : Deviations) (H : Str → Str) (dataset : List Quad) : Option Str :=
  (canonicalize dv H dataset).map (fun r => (sortBy id (r.2.map (nquad Cnq.nqTerm))).flatten)

/-- the Recommendation -/
def canonicalNQuads (H : Str → Str) (dataset : List Quad) : Option Str :=
  canonicalNQuadsWith Deviations.none H dataset

/-! ### the other legal order of ties

The Recommendation orders the hash path list of step 5.3 "by hash" and says nothing about equal
hashes.  `canonicalNQuads` keeps equal hashes in the order of the identifier list; the variant below
processes every identifier list backwards, i.e. resolves every tie the other way round.  Both are
instances of the Recommendation; they give the same document whenever ties only occur between blank
nodes exchanged by an automorphism.  (Used by the drivers to detect datasets on which RDFC-1.0 does
not determine the output: finding C05-rdfc10-ambiguous-tie.) -/

def step5RevTies (H : Str → Str) (fuel : Nat) (st : State) : Option State :=
  foldOpt (fun st e => (step52 Deviations.none H st fuel e.2.reverse).map (step53 st)) st (sortBy (·.1) st.hashToBnodes)

def canonicalNQuadsRevTies (H : Str → Str) (dataset : List Quad) : Option Str :=
  if !dataset.all isRdfQuad then none else
  let st : State := ⟨step2 Deviations.none dataset, [], IdIssuer.fresh "c14n".toList⟩
  let st := step4 (step3 H st)
  match step5RevTies H (st.bnodeToQuads.length + 2) st with
  | none => none
  | some st => some (sortBy id ((dataset.map (relabelQuad st.canonicalIssuer.issued)).map (nquad Cnq.nqTerm))).flatten

/-
Points I could not re-verify offline, and how they are resolved:
 * canonical N-Quads escaping (ECHAR for BS HT LF FF CR `"` `\`; `\uXXXX`, uppercase hex, for the
   other C0 controls and DEL) is *shared* with the implementation model (`Cnq`), i.e. not demanded
   independently; the XML-`Char` clause for U+FFFE/U+FFFF is not demanded at all.
 * iteration order of "for each n in the blank node to quads map" (step 3) and of the permutations
   is unspecified; any choice is an instance of the Recommendation.  Results are compared on the
   serialised dataset only (the identifier map is determined only up to an automorphism of the dataset).
 * step 2.1: I read "for each blank node that is a component of Q, add a reference to Q" as ONE
   reference per blank node (rdf-canonize keeps a Set of quads, rdf-normalize tests for presence,
   as far as I remember), but an implementation appending once per occurrence exists (pyld, as
   far as I remember) and the test-suite's self-link tests do not separate the two readings.  The
   driver therefore accepts the output of either reading (`Deviations.dupRefs`) and only reports
   which one the implementation follows.
-/

end SophiaModel.Rdfc10Spec
