/-
C08 — hand models of the token recognisers of the parser back-ends, as regular expressions over
code points.  Each definition is transcribed from the third-party source it names (crate versions
as pinned by /repo/Cargo.lock) and is tied to the real crate by the differential harness
(harness/props/c08, request `tok`): the real parser is driven through the smallest document that
isolates the recogniser, over tokens sampled from both sides.

What a definition denotes: the set of strings the back-end can hand over to sophia (inside a
`Trusted<…>` rio term) for that token kind — the *emitted* language.
-/
import SophiaModel.Regex.Comb
import SophiaModel.Model.Iri3987

namespace SophiaModel.Backend
open SophiaModel Re

/-! ## rio_turtle 0.8.6 `shared.rs`: character classes -/

/-- `is_possible_pn_chars_base_ascii` ∪ `is_possible_pn_chars_base_unicode` -/
def pnCharsBase : Re := ranges
  [(65, 90), (97, 122), (0xC0, 0xD6), (0xD8, 0xF6), (0xF8, 0x2FF), (0x370, 0x37D), (0x37F, 0x1FFF),
   (0x200C, 0x200D), (0x2070, 0x218F), (0x2C00, 0x2FEF), (0x3001, 0xD7FF), (0xF900, 0xFDCF),
   (0xFDF0, 0xFFFD), (0x10000, 0xEFFFF)]
/-- `is_possible_pn_chars_u_*`: base or `_` (the `:` of the grammar comment is *not* in the code) -/
def pnCharsU : Re := alts [pnCharsBase, chr '_']
def digit : Re := rng '0' '9'
/-- `is_possible_pn_chars_*` -/
def pnChars : Re := alts [pnCharsU, chr '-', digit, nrng 0xB7 0xB7, nrng 0x300 0x36F, nrng 0x203F 0x2040]

/-- `parse_blank_node_label`: first `PN_CHARS_U | [0-9]`; then a loop that pushes a name character,
or a `.` when the *next byte* is an ASCII name character or any non-ASCII byte.  Labels returned
when the function stops at an ASCII character or at the end of input: -/
def rioBnode : Re := .cat (alts [pnCharsU, digit]) (.star (alts [pnChars, .cat (chr '.') pnChars]))

/-- A `.` followed by a non-ASCII character that is *not* a name character is pushed too, and the
function returns the label with that trailing `.`, the reader standing on the last byte of the
offending character (`read_utf8_char` does not rewind).  Every caller then dispatches on that
continuation byte (0x80–0xBF) and errs.  The line-based parsers (N-Triples, N-Quads, generalized
N-Quads) emit nothing for a line in error, so `rioBnode` is their emitted language; the streaming
Turtle-family parsers have already emitted the triple when its *object* is complete, so for a blank
node in object position the emitted language is this one (harness request `trail`): -/
def rioBnodeReturned : Re := .cat rioBnode (opt (chr '.'))

/-- `gnquads.rs parse_variable`: first `PN_CHARS_U | [0-9]`, then `PN_CHARS_U | [0-9]`
(the test `c == 0xb7` is guarded by `c <= MAX_ASCII` and never true; non-ASCII characters are
tested with `is_possible_pn_chars_u_unicode` only) -/
def rioVar : Re := .cat (alts [pnCharsU, digit]) (.star (alts [pnCharsU, digit]))

/-! ## oxilangtag 0.1.6 `parse_language_tag`, on an already lower-cased tag
(rio_turtle `parse_langtag` lower-cases while reading `[a-zA-Z0-9-]*`; rio_xml lower-cases the
`xml:lang` value; both then keep the lower-cased text and use oxilangtag only as a validator) -/

def la : Re := rng 'a' 'z'
def lan : Re := alts [la, digit]
def grandfathered : Re := alts (List.map lit
  ["art-lojban", "cel-gaulish", "en-gb-oed", "i-ami", "i-bnn", "i-default", "i-enochian", "i-hak",
   "i-klingon", "i-lux", "i-mingo", "i-navajo", "i-pwn", "i-tao", "i-tay", "i-tsu", "no-bok",
   "no-nyn", "sgn-be-fr", "sgn-be-nl", "sgn-ch-de", "zh-guoyu", "zh-hakka", "zh-min", "zh-min-nan",
   "zh-xiang"])
def dash : Re := chr '-'
/-- `parse_privateuse`: `x-` then one or more `-`-separated subtags of 1–8 alphanumerics -/
def privateUseTag : Re := seqs [lit "x-", between 1 8 lan, .star (.cat dash (between 1 8 lan))]
/-- the state machine of `parse_langtag`, arm by arm -/
def extlangs : Re := upto 3 (.cat dash (times 3 la))
def script : Re := .cat dash (times 4 la)
def region : Re := .cat dash (.alt (times 2 la) (times 3 digit))
def variant : Re := .cat dash (.alt (between 5 8 lan) (.cat digit (times 3 lan)))
/-- singleton: one alphanumeric other than `x` -/
def singleton : Re := ranges [(48, 57), (97, 119), (121, 122)]
def extension : Re := seqs [dash, singleton, plus (.cat dash (between 2 8 lan))]
def privateUse : Re := seqs [dash, chr 'x', plus (.cat dash (between 1 8 lan))]
def normalTag : Re := seqs
  [.alt (.cat (between 2 3 la) extlangs) (between 4 8 la),
   opt script, opt region, .star variant, .star extension, opt privateUse]
/-- language tags handed over by rio_turtle and rio_xml -/
def rioLang : Re := alts [grandfathered, privateUseTag, normalTag]

/-! ## oxiri 0.2.11 `IriParser<_, false>` (checked mode), no base -/
namespace Oxiri
def alpha : Re := ranges [(65, 90), (97, 122)]
def alnum : Re := ranges [(48, 57), (65, 90), (97, 122)]
def hexdig : Re := ranges [(48, 57), (65, 70), (97, 102)]      -- `is_ascii_hexdigit`
/-- `is_unreserved_or_sub_delims` -/
def us : Re := alts [alnum, oneOf "!$&'()*+,-.;=_~"]
/-- `is_iunreserved_or_sub_delims` -/
def ius : Re := alts [us, ranges
  [(0xA0, 0xD7FF), (0xF900, 0xFDCF), (0xFDF0, 0xFFEF),
   (0x10000, 0x1FFFD), (0x20000, 0x2FFFD), (0x30000, 0x3FFFD), (0x40000, 0x4FFFD),
   (0x50000, 0x5FFFD), (0x60000, 0x6FFFD), (0x70000, 0x7FFFD), (0x80000, 0x8FFFD),
   (0x90000, 0x9FFFD), (0xA0000, 0xAFFFD), (0xB0000, 0xBFFFD), (0xC0000, 0xCFFFD),
   (0xD0000, 0xDFFFD), (0xE1000, 0xEFFFD)]]
/-- `read_echar` -/
def pct : Re := seqs [chr '%', hexdig, hexdig]
/-- `read_url_codepoint_or_echar(c, valid)` for a class `valid` -/
def cp (valid : Re) : Re := .alt valid pct
def pchar : Re := cp (alts [ius, oneOf ":@"])
/-- `parse_path::<false>`: any mix of path characters and `/` up to `?`, `#` or the end -/
def path : Re := .star (.alt pchar (chr '/'))
/-- a path that does not begin with `/` -/
def noSlashPath : Re := opt (.cat pchar path)
def query : Re := .star (cp (alts [ius, oneOf ":@/?", ranges [(0xE000, 0xF8FF), (0xF0000, 0xFFFFD), (0x100000, 0x10FFFD)]]))
def fragment : Re := .star (cp (alts [ius, oneOf ":@/?"]))
def tail : Re := .cat (opt (.cat (chr '?') query)) (opt (.cat (chr '#') fragment))
/-- `parse_scheme` (reached when the first character is ASCII alphabetic) -/
def scheme : Re := .cat alpha (.star (alts [alnum, oneOf "+-."]))
/-- `parse_authority`: text up to `@` made of `iunreserved / sub-delims / ":" / pct` -/
def userinfo : Re := .star (cp (alts [ius, chr ':']))
/-- `std::net::Ipv6Addr::from_str` (std's parser: 1–4 hex digits per group, one `::` standing for at
least one group, optional dotted quad without leading zeros in the last 32 bits) — transcribed as the
RFC 3986 `IPv6address` production; part of the hand model, watched by the differential -/
def ipv6 : Re := Rfc3987.IPv6address
/-- `validate_ip_v_future`, for the class `v` of accepted first letters -/
def ipvFuture (v : Re) : Re := seqs [v, plus hexdig, chr '.', plus (alts [us, chr ':'])]
/-- `parse_host` -/
def host (v : Re) : Re := .alt (seqs [chr '[', .alt ipv6 (ipvFuture v), chr ']']) (.star (cp ius))
def port : Re := .star (rng '0' '9')
def authority (v : Re) : Re := seqs [opt (.cat userinfo (chr '@')), host v, opt (.cat (chr ':') port)]
/-- after `//`: authority, then `parse_path_start` -/
def authPart (v : Re) : Re := seqs [lit "//", authority v, opt (.cat (chr '/') path)]
def hierAbs (v : Re) : Re := alts [authPart v, .cat (chr '/') noSlashPath, noSlashPath]
/-- `Iri::parse` = `IriRef::parse` with a scheme -/
def absWith (v : Re) : Re := seqs [scheme, chr ':', hierAbs v, tail]
/-- `parse_relative` without base.  A leading `/` goes to `parse_path_or_authority`; otherwise
`parse_relative_path` reads a first segment without `:` and hands over to `parse_path` -/
def seg0 : Re := plus (cp (alts [ius, chr '@']))
def relWith (v : Re) : Re := seqs
  [alts [authPart v, .cat (chr '/') noSlashPath, .cat seg0 (opt (.cat (chr '/') path)), .eps], tail]
/-- `parse_host` takes the IPvFuture branch when the literal starts with `v` **or `V`** -/
def vAny : Re := oneOf "vV"
def abs : Re := absWith vAny
def ref : Re := .alt (absWith vAny) (relWith vAny)
/-- the same recogniser restricted to a lower-case `v` (what the toolkit's regex spelled before
/repo 94adeaf; kept for reference, no theorem uses it any more) -/
def absLower : Re := absWith (chr 'v')
def refLower : Re := .alt (absWith (chr 'v')) (relWith (chr 'v'))
end Oxiri

/-- N-Triples / N-Quads `<…>`, Turtle / TriG `<…>` without configured base, RDF/XML `rdf:about`
etc. without base: `parse_iriref` un-escapes, then `oxiri::Iri::parse` -/
def rioIriAbs : Re := Oxiri.abs
/-- generalized N-Quads `<…>`: `oxiri::IriRef::parse` -/
def rioIriRef : Re := Oxiri.ref

def anyScalar : Re := ranges [(0, 0xD7FF), (0xE000, 0x10FFFF)]
/-- characters quick-xml lets through in an attribute value (it does not enforce XML 1.0 `Char`);
NUL is left out because the harness never sends it -/
def xmlChar : Re := ranges [(1, 0xD7FF), (0xE000, 0x10FFFF)]
/-- generalized TriG `<…>` without base (`gtrig.rs parse_generalized_iriref`): `parse_iriref` only;
no IRI parser is consulted.  Raw characters exclude `>`, `\`, CR, LF but `\uXXXX` yields any scalar. -/
def gtrigIri : Re := .star anyScalar

/-- characters `parse_pn_local_esc` emits -/
def pnEsc : Re := oneOf "_~.-!$&'()*+,;=/?#@%"
/-- `turtle.rs parse_prefixed_name`, local part as emitted: raw name characters, `:`, `%HH` (its
three characters are in the classes below) and un-escaped `PN_LOCAL_ESC` characters.  The result
`prefix ++ local` is returned **without any IRI validation**. -/
def pnLocalOut : Re := opt (.cat (alts [pnCharsU, chr ':', digit, pnEsc]) (.star (alts [pnChars, chr ':', pnEsc])))
/-- what Turtle/TriG/GTriG emit for `p:local` when `@prefix p: <x:>` -/
def ttlPnameOut : Re := .cat (lit "x:") pnLocalOut

/-! ## rio_xml 0.8.6 -/
/-- `utils.rs is_name_start_char` minus `:` -/
def ncStart : Re := alts [pnCharsBase, chr '_']
/-- `is_name_char` minus `:` minus `.` -/
def ncCharNoDot : Re := alts [ncStart, chr '-', digit, nrng 0xB7 0xB7, nrng 0x300 0x36F, nrng 0x203F 0x2040]
/-- `parser.rs is_nc_name`: the value of `rdf:nodeID` becomes the blank node label unchanged -/
def xmlNodeId : Re := .cat ncStart (.star (.alt ncCharNoDot (chr '.')))
/-- NCNames in which every `.` is followed by a name character other than `.` -/
def xmlNodeIdNoTrailingDot : Re := .cat ncStart (.star (.alt ncCharNoDot (.cat (chr '.') ncCharNoDot)))
/-- element / attribute names: `resolve_ns_name` concatenates the namespace name (any attribute
value) and the local name without consulting an IRI parser; here with local name `p` -/
def xmlQNameOut : Re := .cat (plus xmlChar) (chr 'p')

/-! ## json-ld 0.15 / rdf-types 0.15 -/
/-- `rdf_types::BlankId::new` (after `_:`): decides which `@id` values are blank node identifiers.
Note `:` counts as PN_CHARS_U here and `.` is never allowed. -/
def rdfTypesBlank : Re := .cat (alts [digit, pnCharsU, chr ':']) (.star (alts [pnChars, chr ':']))
/-- …but those labels never reach sophia: node-map generation relabels every blank node with
`rdf_types::generator::Blank::new()` (no prefix: a decimal counter), as set up in
jsonld/src/parser.rs `parse_json` -/
def jsonldBnode : Re := plus digit

/-- With `produce_generalized_rdf` a blank node identifier used as PROPERTY is emitted as the predicate of the
quad **without** being relabelled (node-map generation relabels node identifiers only): the label the document
spells, as recognised by `rdf_types::BlankId::new`, reaches sophia unchanged -/
def jsonldBnodePred : Re := rdfTypesBlank
/-- the same labels without `:` (the one character class `rdf_types` allows and `BNODE_ID` does not) -/
def jsonldBnodePredNoColon : Re := .cat (alts [digit, pnCharsU]) (.star pnChars)

/-! ## executable views used by the driver -/

def lowerAscii (w : List Nat) : List Nat := w.map (fun c => if 65 ≤ c ∧ c ≤ 90 then c + 32 else c)

/-- rio_turtle `BlankNodeIdGenerator::disambiguate` (Turtle, TriG, GTriG only): labels of the shape
`riog` + 8 digits + `d`* get one more `d` -/
def riogShape : Re := seqs [lit "riog", times 8 digit, .star (chr 'd')]
def disambiguate (w : List Nat) : List Nat := if matchB riogShape w then w ++ [100] else w

end SophiaModel.Backend
