def hello := "world"
