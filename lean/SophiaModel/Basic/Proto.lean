/-
Line-protocol helpers shared by all drivers: hex <-> strings, key=value replies,
term s-expressions (prefix notation, arity known).  Not used in proofs.
-/
namespace SophiaModel.Proto

def hexDigit (n : Nat) : Char :=
  if n < 10 then Char.ofNat (48 + n) else Char.ofNat (87 + n)

def hexOfBytes (b : ByteArray) : String :=
  if b.size == 0 then "_" else
  String.ofList (b.toList.flatMap (fun x => [hexDigit (x.toNat / 16), hexDigit (x.toNat % 16)]))

def hexOfString (s : String) : String := hexOfBytes s.toUTF8

def hexVal (c : Char) : Option Nat :=
  if '0' ≤ c ∧ c ≤ '9' then some (c.toNat - 48)
  else if 'a' ≤ c ∧ c ≤ 'f' then some (c.toNat - 87)
  else if 'A' ≤ c ∧ c ≤ 'F' then some (c.toNat - 55)
  else none

def bytesOfHexAux : List Char → ByteArray → Option ByteArray
  | [], acc => some acc
  | [_], _ => none
  | a :: b :: rest, acc =>
    match hexVal a, hexVal b with
    | some x, some y => bytesOfHexAux rest (acc.push (UInt8.ofNat (x * 16 + y)))
    | _, _ => none

def bytesOfHex (s : String) : Option ByteArray :=
  if s == "_" then some ByteArray.empty else bytesOfHexAux s.toList ByteArray.empty

def stringOfHex (s : String) : Option String := do
  let b ← bytesOfHex s
  String.fromUTF8? b

def charsOfHex (s : String) : Option (List Char) := (stringOfHex s).map String.toList

def hexOfChars (cs : List Char) : String := hexOfString (String.ofList cs)

def fields (line : String) : List String :=
  (line.trimAscii.toString.splitOn " ").filter (· ≠ "")

def kv (k : String) (v : String) : String := k ++ "=" ++ v
def kvB (k : String) (b : Bool) : String := k ++ "=" ++ (if b then "1" else "0")
def kvN (k : String) (n : Nat) : String := k ++ "=" ++ toString n
def reply (fs : List String) : String := " ".intercalate fs

/-- generic driver loop: one request per line, one reply per line -/
partial def runLoopAux {σ : Type} (h : IO.FS.Stream) (out : IO.FS.Stream) (st : σ)
    (step : σ → String → σ × String) : IO Unit := do
  let line ← h.getLine
  if line.isEmpty then return ()
  let (st', r) := step st line
  out.putStrLn r
  runLoopAux h out st' step

def runLoop {σ : Type} (init : σ) (step : σ → String → σ × String) : IO UInt32 := do
  let i ← IO.getStdin
  let o ← IO.getStdout
  runLoopAux i o init step
  o.flush
  return 0

end SophiaModel.Proto
