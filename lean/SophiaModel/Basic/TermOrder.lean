/-
`Term::eq`, `Term::cmp`, `Term::hash` of `api/src/term.rs` and `LanguageTag`'s
case-folding `Eq/Ord/Hash` of `api/src/term/language_tag.rs`, transcribed.
-/
import SophiaModel.Basic.Term

namespace SophiaModel

/-- `char::to_ascii_lowercase` -/
def lowerAscii (c : Char) : Char :=
  if 'A' ≤ c ∧ c ≤ 'Z' then Char.ofNat (c.toNat + 32) else c

def foldTag (t : Str) : Str := t.map lowerAscii

/-- `str::cmp`: bytewise on UTF-8, which coincides with code-point order (modelling assumption,
DESIGN.md §3.1) -/
def strCmp (a b : Str) : Ordering := compare (a.map Char.toNat) (b.map Char.toNat)

/-- `LanguageTag::cmp` -/
def tagCmp (a b : Str) : Ordering := strCmp (foldTag a) (foldTag b)

/-- `LanguageTag::eq` = `eq_ignore_ascii_case` -/
def tagEq (a b : Str) : Bool := foldTag a == foldTag b

def rdfLangString : Str := "http://www.w3.org/1999/02/22-rdf-syntax-ns#langString".toList

namespace Term

/-- numeric value of the `TermKind` discriminant (defines the cross-kind order) -/
def Kind.rank : Kind → Nat
  | .bnode => 0 | .iri => 1 | .literal => 2 | .triple => 3 | .variable => 4

/-- `Term::datatype()` -/
def datatype : Term → Option Str
  | .lit _ d => some d
  | .lang _ _ => some rdfLangString
  | _ => none

/-- `Term::eq` -/
def termEq : Term → Term → Bool
  | .iri a, .iri b => a == b
  | .bnode a, .bnode b => a == b
  | .var a, .var b => a == b
  | .lit l1 d1, .lit l2 d2 => l1 == l2 && d1 == d2
  | .lang l1 t1, .lang l2 t2 => l1 == l2 && tagEq t1 t2
  | .triple s1 p1 o1, .triple s2 p2 o2 => termEq s1 s2 && termEq p1 p2 && termEq o1 o2
  | _, _ => false

/-- `Term::cmp` -/
def termCmp : Term → Term → Ordering
  | .iri a, .iri b => strCmp a b
  | .bnode a, .bnode b => strCmp a b
  | .var a, .var b => strCmp a b
  | .lang l1 t1, .lang l2 t2 => (tagCmp t1 t2).then (strCmp l1 l2)
  | .lit l1 d1, .lit l2 d2 => (strCmp d1 d2).then (strCmp l1 l2)
  | .lit l1 d1, .lang l2 _ => (strCmp d1 rdfLangString).then (strCmp l1 l2)
  | .lang l1 _, .lit l2 d2 => (strCmp rdfLangString d2).then (strCmp l1 l2)
  | .triple s1 p1 o1, .triple s2 p2 o2 =>
    (termCmp s1 s2).then ((termCmp p1 p2).then (termCmp o1 o2))
  | a, b => compare a.kind.rank b.kind.rank

/-- what `Term::hash` feeds to the `Hasher`, call by call -/
inductive HashEv where
  | disc (n : Nat)          -- `TermKind::hash` (derived: discriminant)
  | str (s : Str)           -- `str::hash`: the bytes, then 0xFF
  | chr (c : Char)          -- `char::hash`: `write_u32`
  deriving Repr, DecidableEq

def termHash : Term → List HashEv
  | .iri s => [.disc 1, .str s]
  | .bnode s => [.disc 0, .str s]
  | .var s => [.disc 4, .str s]
  | .lit l d => [.disc 2, .str l, .str d]
  | .lang l t => [.disc 2, .str l, .chr '@'] ++ (foldTag t).map .chr
  | .triple s p o => .disc 3 :: (termHash s ++ termHash p ++ termHash o)

/-- well-formedness needed by the order laws: a literal without tag never has datatype
`rdf:langString` (RDF 1.1; `SimpleTerm` constructors and all parsers guarantee it) -/
def WF : Term → Bool
  | .lit _ d => d != rdfLangString
  | .triple s p o => WF s && WF p && WF o
  | _ => true

end Term

/-- `NsTerm::eq` of `api/src/ns/_term.rs`: prefix + suffix comparison against an IRI -/
def nsTermEq (ns suffix : Str) (t : Term) : Bool :=
  match t with
  | .iri s => ns.isPrefixOf s && (s.drop ns.length == suffix)
  | _ => false

end SophiaModel
