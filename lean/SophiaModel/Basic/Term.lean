/-
RDF terms as the toolkit's `Term` trait exposes them (kind + accessors), and quads.
-/
import SophiaModel.Basic.Proto

namespace SophiaModel

abbrev Str := List Char

inductive Term where
  | iri (s : Str)
  | bnode (s : Str)
  | lit (lex dt : Str)          -- typed literal: lexical form, datatype IRI
  | lang (lex tag : Str)        -- language-tagged string
  | triple (s p o : Term)
  | var (s : Str)
  deriving Repr, DecidableEq, Inhabited

structure Quad where
  s : Term
  p : Term
  o : Term
  g : Option Term
  deriving Repr, DecidableEq, Inhabited

namespace Term

/-- `TermKind` discriminants as in `api/src/term.rs` -/
inductive Kind | bnode | iri | literal | triple | variable
  deriving Repr, DecidableEq, Inhabited

def kind : Term → Kind
  | .iri _ => .iri
  | .bnode _ => .bnode
  | .lit _ _ => .literal
  | .lang _ _ => .literal
  | .triple _ _ _ => .triple
  | .var _ => .variable

open Proto in
/-- prefix-notation rendering used by the line protocol -/
def render : Term → String
  | .iri s => "i " ++ hexOfChars s
  | .bnode s => "b " ++ hexOfChars s
  | .lit l d => "l " ++ hexOfChars l ++ " " ++ hexOfChars d
  | .lang l t => "g " ++ hexOfChars l ++ " " ++ hexOfChars t
  | .triple s p o => "t " ++ render s ++ " " ++ render p ++ " " ++ render o
  | .var s => "v " ++ hexOfChars s

open Proto in
/-- parser for `render` (fuel-bounded; tokens = space separated fields) -/
def parse : Nat → List String → Option (Term × List String)
  | 0, _ => none
  | fuel + 1, toks =>
    match toks with
    | "i" :: h :: rest => (charsOfHex h).map (fun s => (.iri s, rest))
    | "b" :: h :: rest => (charsOfHex h).map (fun s => (.bnode s, rest))
    | "v" :: h :: rest => (charsOfHex h).map (fun s => (.var s, rest))
    | "l" :: h1 :: h2 :: rest => do
      let a ← charsOfHex h1; let b ← charsOfHex h2; pure (.lit a b, rest)
    | "g" :: h1 :: h2 :: rest => do
      let a ← charsOfHex h1; let b ← charsOfHex h2; pure (.lang a b, rest)
    | "t" :: rest => do
      let (s, r1) ← parse fuel rest
      let (p, r2) ← parse fuel r1
      let (o, r3) ← parse fuel r2
      pure (.triple s p o, r3)
    | _ => none

def parseAll (toks : List String) : Option (Term × List String) := parse (toks.length + 1) toks

end Term

namespace Quad
def render (q : Quad) : String :=
  q.s.render ++ " " ++ q.p.render ++ " " ++ q.o.render ++ " " ++
    (match q.g with | none => "-" | some g => g.render)

def parse (toks : List String) : Option (Quad × List String) := do
  let (s, r1) ← Term.parseAll toks
  let (p, r2) ← Term.parseAll r1
  let (o, r3) ← Term.parseAll r2
  match r3 with
  | "-" :: rest => pure (⟨s, p, o, none⟩, rest)
  | _ => do
    let (g, r4) ← Term.parseAll r3
    pure (⟨s, p, o, some g⟩, r4)
end Quad

end SophiaModel
